//! Structural greedy shrinker on decoded programs: delete ops / scripts / settings while the *same property's*
//! oracle keeps failing.

use crate::program::*;

/// Shrinks `program` while `fails` stays true. `budget` bounds the number of oracle evaluations.
pub fn shrink(program: &Program, fails: &mut dyn FnMut(&Program) -> bool, budget: usize) -> Program
{
    let mut best = program.clone();
    let mut evals = 0usize;
    let mut try_candidate = |cand: Program, best: &mut Program, evals: &mut usize| -> bool {
        if *evals >= budget { return false; }
        *evals += 1;
        if fails(&cand) { *best = cand; true } else { false }
    };
    loop
    {
        let mut progress = false;

        // delete top-level ops (chunks first, then single ops, from the end)
        let mut chunk = best.top.len() / 2;
        while chunk >= 1
        {
            let mut i = best.top.len();
            while i >= chunk
            {
                let mut cand = best.clone();
                cand.top.drain(i - chunk..i);
                if try_candidate(cand, &mut best, &mut evals) { progress = true; i = i.min(best.top.len()); } else { i -= 1; }
                if i == 0 { break; }
            }
            chunk /= 2;
        }

        // empty whole scripts / delete trailing scripts / delete single script ops
        for which in 0..2
        {
            let n_sys = if which == 0 { best.setup.systems.len() } else { best.setup.templates.len() };
            for s in 0..n_sys
            {
                fn get_def(p: &mut Program, which: usize, s: usize) -> &mut SysDef
                {
                    if which == 0 { &mut p.setup.systems[s] } else { &mut p.setup.templates[s] }
                }
                // drop all scripts
                {
                    let mut cand = best.clone();
                    let def = get_def(&mut cand, which, s);
                    if !def.scripts.is_empty()
                    {
                        def.scripts.clear();
                        if try_candidate(cand, &mut best, &mut evals) { progress = true; }
                    }
                }
                // drop trailing scripts
                loop
                {
                    let mut cand = best.clone();
                    let def = get_def(&mut cand, which, s);
                    if def.scripts.is_empty() { break; }
                    def.scripts.pop();
                    if try_candidate(cand, &mut best, &mut evals) { progress = true; } else { break; }
                }
                // delete single ops
                let n_scripts = { let mut b = best.clone(); get_def(&mut b, which, s).scripts.len() };
                for k in 0..n_scripts
                {
                    let mut i = { let mut b = best.clone(); get_def(&mut b, which, s).scripts.get(k).map(|x| x.ops.len()).unwrap_or(0) };
                    while i > 0
                    {
                        i -= 1;
                        let mut cand = best.clone();
                        let def = get_def(&mut cand, which, s);
                        if k >= def.scripts.len() || i >= def.scripts[k].ops.len() { continue; }
                        def.scripts[k].ops.remove(i);
                        if let Some(e) = def.scripts[k].err_after { if e as usize > i { def.scripts[k].err_after = Some(e - 1); } }
                        if try_candidate(cand, &mut best, &mut evals) { progress = true; }
                    }
                    // simplify flags
                    {
                        let mut cand = best.clone();
                        let def = get_def(&mut cand, which, s);
                        if k < def.scripts.len() && (def.scripts[k].err_after.is_some() || def.scripts[k].take_twice)
                        {
                            def.scripts[k].err_after = None;
                            def.scripts[k].take_twice = false;
                            if try_candidate(cand, &mut best, &mut evals) { progress = true; }
                        }
                    }
                }
                // simplify the system itself
                {
                    let mut cand = best.clone();
                    let def = get_def(&mut cand, which, s);
                    if def.shape != Shape::Full || def.result != ResKind::Unit
                    {
                        def.shape = Shape::Full;
                        def.result = ResKind::Unit;
                        for sc in def.scripts.iter_mut() { sc.err_after = None; }
                        if try_candidate(cand, &mut best, &mut evals) { progress = true; }
                    }
                }
            }
        }

        // drop trailing pool systems / templates that nothing needs
        loop
        {
            if best.setup.systems.len() <= 1 { break; }
            let mut cand = best.clone();
            cand.setup.systems.pop();
            if try_candidate(cand, &mut best, &mut evals) { progress = true; } else { break; }
        }
        loop
        {
            if best.setup.templates.is_empty() { break; }
            let mut cand = best.clone();
            cand.setup.templates.pop();
            if try_candidate(cand, &mut best, &mut evals) { progress = true; } else { break; }
        }

        // setup simplifications
        if !best.setup.hierarchy.is_empty()
        {
            let mut cand = best.clone();
            cand.setup.hierarchy.clear();
            if try_candidate(cand, &mut best, &mut evals) { progress = true; }
        }
        for i in 0..best.setup.comps.len()
        {
            let mut cand = best.clone();
            if cand.setup.comps[i] != (None, None)
            {
                cand.setup.comps[i] = (None, None);
                if try_candidate(cand, &mut best, &mut evals) { progress = true; }
            }
        }
        loop
        {
            if best.setup.n_entities <= 1 { break; }
            let mut cand = best.clone();
            cand.setup.n_entities -= 1;
            cand.setup.comps.truncate(cand.setup.n_entities as usize);
            if try_candidate(cand, &mut best, &mut evals) { progress = true; } else { break; }
        }
        for i in 0..best.top.len()
        {
            let mut cand = best.clone();
            if cand.top[i].via != Via::Commands || !cand.top[i].settle || cand.top[i].update
            {
                cand.top[i].via = Via::Commands;
                cand.top[i].settle = true;
                cand.top[i].update = false;
                if try_candidate(cand, &mut best, &mut evals) { progress = true; }
            }
            // shrink bundles
            if let Op::Register{ bundle, .. } = &best.top[i].op
            {
                for k in (0..bundle.len()).rev()
                {
                    let mut cand = best.clone();
                    if let Op::Register{ bundle, .. } = &mut cand.top[i].op
                    {
                        if k < bundle.len() { bundle.remove(k); }
                    }
                    if try_candidate(cand, &mut best, &mut evals) { progress = true; }
                }
            }
        }

        if !progress || evals >= budget { break; }
    }
    best
}
