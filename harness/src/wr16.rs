//! Engine `wr16` (property C16, also partial revocation for C06): world reactors and entity world reactors.
//!
//! Histories of add / remove (full and partial) / run / trigger / despawn operations over two `WorldReactor`s with
//! dynamic trigger bundles, one with starting triggers, and three `EntityWorldReactor`s with per-entity local data.
//! Oracle: a per-reactor key table predicts, for every window between two end-of-frame settles, the multiset of
//! runs (reactor, readings, local entity + tag); per (reactor, entity) the run counter stored in the local data must
//! count 0,1,2,..; per reactor its `Local` must count 1,2,3,.. (never despawned / duplicated); local data exists
//! exactly while the entity lives and still has a trigger of that reactor.

use arbitrary::Unstructured;
use bevy::prelude::*;
use bevy::ecs::system::SystemState;
use bevy_cobweb::prelude::*;
use serde::{Deserialize, Serialize};
use serde_json::{json, Value};

use std::cell::RefCell;
use std::collections::BTreeMap;

use crate::driver::*;
use crate::exec::{AllReaders, DynBundle, Held, KeyR};
use crate::program::Key;
use crate::universe::{with_case, Case, EntRef, Item, Pay, CA, RA};

#[derive(Debug, Clone, PartialEq, Eq, Hash, Serialize, Deserialize)]
pub enum WOp
{
    WAdd(u8, Vec<Key>),
    WRemove(u8, Vec<Key>),
    WRun(u8),
    W3AddBroadcast,
    W3Remove(bool),
    EAdd(u8, u8, u32),
    /// like `EAdd` through `EntityReactor::add`, but a despawn of the entity is queued just before it in the same batch:
    /// `add` sees a live entity (returns true), its queued work finds the entity gone and must be a no-op (no panic)
    EAddDying(u8, u8, u32),
    /// reactor, entity, bitmask of that reactor's triggers to remove
    ERemove(u8, u8, u8),
    /// one `EntityReactor::remove` call whose bundle spans several entities: reactor, [(entity, trigger bitmask)]
    ERemoveMany(u8, Vec<(u8, u8)>),
    Mutate(u8),
    EntityEvent(u8),
    Insert(u8, u8),
    RemoveComp(u8),
    Despawn(u8),
    ResMutate,
    Broadcast,
    /// broadcast of the second event type: only the reactor registered through `App::add_reactor` listens
    Broadcast1,
}

#[derive(Debug, Clone, PartialEq, Eq, Hash, Serialize, Deserialize)]
pub struct WStep
{
    pub op: WOp,
    pub settle: bool,
}

#[derive(Debug, Clone, PartialEq, Eq, Hash, Serialize, Deserialize, Default)]
pub struct WCase
{
    pub n_entities: u8,
    pub with_ca: Vec<bool>,
    pub steps: Vec<WStep>,
}

#[derive(Debug, Clone, PartialEq, Eq, PartialOrd, Ord)]
struct WLog
{
    reactor: u8,
    readings: Vec<Item>,
    local: Option<(EntRef, u32)>,
}

#[derive(Default)]
struct St
{
    runs: Vec<WLog>,
    /// (reactor, entity, runs_before) in order of occurrence
    counters: Vec<(u8, EntRef, u32)>,
    /// (reactor, Local counter)
    locals: Vec<(u8, u32)>,
    pool: Vec<Entity>,
    next_payload: u32,
}

thread_local!
{
    static ST: RefCell<St> = RefCell::new(St::default());
}

fn pool_entity(i: u8) -> Entity { ST.with(|s| { let s = s.borrow(); s.pool[i as usize % s.pool.len()] }) }

fn log_run(reactor: u8, r: &mut AllReaders, n: &mut u32, local: Option<(Entity, u32, u32)>)
{
    *n += 1;
    let mut held = Held::default();
    let (mut readings, _) = r.sample(true, false, &mut held);
    readings.sort();
    let local_ref = local.map(|(e, tag, _)| (crate::universe::map_entity(e), tag));
    ST.with(|s| {
        let mut s = s.borrow_mut();
        s.runs.push(WLog{ reactor, readings, local: local_ref });
        s.locals.push((reactor, *n));
        if let Some((e, _, runs)) = local { s.counters.push((reactor, crate::universe::map_entity(e), runs)); }
    });
    drop(held);
}

pub struct WD<const N: u8>;
impl<const N: u8> WorldReactor for WD<N>
{
    type StartingTriggers = ();
    type Triggers = DynBundle;
    fn reactor(self) -> SystemCommandCallback
    {
        SystemCommandCallback::new(|mut r: AllReaders, mut n: Local<u32>| log_run(N, &mut r, &mut n, None))
    }
}

pub struct W3;
impl WorldReactor for W3
{
    type StartingTriggers = ResourceMutationTrigger<RA>;
    type Triggers = BroadcastTrigger<Pay<0>>;
    fn reactor(self) -> SystemCommandCallback
    {
        SystemCommandCallback::new(|mut r: AllReaders, mut n: Local<u32>| log_run(2, &mut r, &mut n, None))
    }
}

macro_rules! entity_reactor
{
    ($name:ident, $idx:expr, $triggers:ty) =>
    {
        pub struct $name;
        impl EntityWorldReactor for $name
        {
            type Triggers = $triggers;
            type Local = (u32, u32);
            fn reactor(self) -> SystemCommandCallback
            {
                SystemCommandCallback::new(|mut data: EntityLocal<$name>, mut r: AllReaders, mut n: Local<u32>| {
                    // the read-only accessors must agree with the mutable one
                    let ro = { let (e, d) = data.get(); (e, d.0, d.1) };
                    let ent = data.entity();
                    let (e, d) = data.get_mut();
                    let mut snapshot = (e, d.0, d.1);
                    if ro != snapshot || ent != e { snapshot.1 = u32::MAX; }
                    d.1 += 1;
                    log_run($idx, &mut r, &mut n, Some(snapshot));
                })
            }
        }
    };
}
entity_reactor!(E1, 3, EntityMutationTrigger<CA>);
entity_reactor!(E2, 4, (EntityMutationTrigger<CA>, EntityEventTrigger<Pay<0>>));
entity_reactor!(E3, 5, (EntityRemovalTrigger<CA>, EntityEventTrigger<Pay<0>>));
/// The fourth entity world reactor is an exclusive system: it fetches its parameters - `EntityLocal` among them - twice in
/// one run (a read-only look first, then the same body as the others). Both fetches belong to the same reaction.
pub struct E4;
impl EntityWorldReactor for E4
{
    type Triggers = (EntityInsertionTrigger<CA>, EntityRemovalTrigger<CA>);
    type Local = (u32, u32);
    fn reactor(self) -> SystemCommandCallback
    {
        SystemCommandCallback::new(|world: &mut World, st: &mut SystemState<(EntityLocal<E4>, AllReaders)>, mut n: Local<u32>| {
            let first = { let (data, _r) = st.get_mut(world); let (e, d) = data.get(); (e, d.0, d.1) };
            let (mut data, mut r) = st.get_mut(world);
            let ro = { let (e, d) = data.get(); (e, d.0, d.1) };
            let ent = data.entity();
            let (e, d) = data.get_mut();
            let mut snapshot = (e, d.0, d.1);
            if ro != snapshot || ent != e || first != snapshot { snapshot.1 = u32::MAX; }
            d.1 += 1;
            log_run(6, &mut r, &mut n, Some(snapshot));
        })
    }
}

/// Number of entity world reactors.
const NE: usize = 4;

fn e_keys(k: u8, e: u8) -> Vec<Key>
{
    match k as usize % NE
    {
        0 => vec![Key::EntityMutation(e, 0)],
        1 => vec![Key::EntityMutation(e, 0), Key::EntityEvent(e, 0)],
        2 => vec![Key::EntityRemoval(e, 0), Key::EntityEvent(e, 0)],
        _ => vec![Key::EntityInsertion(e, 0), Key::EntityRemoval(e, 0)],
    }
}

fn resolve(keys: &[Key]) -> DynBundle
{
    let ks: Vec<KeyR> = keys.iter().map(|k| match *k {
        Key::Broadcast(t) => KeyR::Broadcast(t),
        Key::AnyEntityEvent(t) => KeyR::AnyEntityEvent(t),
        Key::EntityEvent(e, t) => KeyR::EntityEvent(pool_entity(e), t),
        Key::Insertion(c) => KeyR::Insertion(c),
        Key::Mutation(c) => KeyR::Mutation(c),
        Key::Removal(c) => KeyR::Removal(c),
        Key::EntityInsertion(e, c) => KeyR::EntityInsertion(pool_entity(e), c),
        Key::EntityMutation(e, c) => KeyR::EntityMutation(pool_entity(e), c),
        Key::EntityRemoval(e, c) => KeyR::EntityRemoval(pool_entity(e), c),
        Key::ResourceMutation(r) => KeyR::ResourceMutation(r),
        Key::Despawn(e) => KeyR::Despawn(pool_entity(e)),
    }).collect();
    DynBundle::new(&ks)
}

/// One system performs every op (as user code would: reactor params + commands).
#[allow(clippy::too_many_arguments)]
fn op_sys(
    In((op, payload)): In<(WOp, u32)>,
    mut c: Commands,
    wd0: Reactor<WD<0>>,
    wd1: Reactor<WD<1>>,
    w3: Reactor<W3>,
    e1: EntityReactor<E1>,
    e2: EntityReactor<E2>,
    e3: EntityReactor<E3>,
    e4: EntityReactor<E4>,
    mut rm: ReactiveMut<CA>,
) -> Option<bool>
{
    let mut ret: Option<bool> = None;
    match op
    {
        WOp::WAdd(0, keys) => { ret = Some(wd0.add(&mut c, resolve(&keys))); }
        WOp::WAdd(_, keys) => { ret = Some(wd1.add(&mut c, resolve(&keys))); }
        WOp::WRemove(0, keys) => { ret = Some(wd0.remove(&mut c, resolve(&keys))); }
        WOp::WRemove(_, keys) => { ret = Some(wd1.remove(&mut c, resolve(&keys))); }
        WOp::WRun(0) => { ret = Some(wd0.run(&mut c)); }
        WOp::WRun(1) => { ret = Some(wd1.run(&mut c)); }
        WOp::WRun(_) => { ret = Some(w3.run(&mut c)); }
        WOp::W3AddBroadcast => { ret = Some(w3.add(&mut c, broadcast::<Pay<0>>())); }
        WOp::W3Remove(true) => { ret = Some(w3.remove(&mut c, resource_mutation::<RA>())); }
        WOp::W3Remove(false) => { ret = Some(w3.remove(&mut c, broadcast::<Pay<0>>())); }
        WOp::EAdd(k, e, tag) =>
        {
            let ent = pool_entity(e);
            match k as usize % NE
            {
                0 => { ret = Some(e1.add(&mut c, ent, (tag, 0))); }
                1 => { ret = Some(e2.add(&mut c, ent, (tag, 0))); }
                2 => { ret = Some(e3.add(&mut c, ent, (tag, 0))); }
                // the EntityCommands entry point (it has no return value; it panics on a missing entity, so it is
                // only used for live ones)
                _ => { if c.get_entity(ent).is_some() { c.entity(ent).add_world_reactor::<E4>((tag, 0)); ret = None; } else { ret = Some(e4.add(&mut c, ent, (tag, 0))); } }
            }
        }
        WOp::EAddDying(k, e, tag) =>
        {
            let ent = pool_entity(e);
            c.queue(move |w: &mut World| { if let Ok(em) = w.get_entity_mut(ent) { em.despawn(); } });
            match k as usize % NE
            {
                0 => { ret = Some(e1.add(&mut c, ent, (tag, 0))); }
                1 => { ret = Some(e2.add(&mut c, ent, (tag, 0))); }
                2 => { ret = Some(e3.add(&mut c, ent, (tag, 0))); }
                _ => { ret = Some(e4.add(&mut c, ent, (tag, 0))); }
            }
        }
        WOp::ERemove(k, e, mask) =>
        {
            let keys: Vec<Key> = e_keys(k, e).into_iter().enumerate().filter(|(i, _)| mask & (1 << i) != 0).map(|(_, k)| k).collect();
            let b = resolve(&keys);
            match k as usize % NE
            {
                0 => { ret = Some(e1.remove(&mut c, b)); }
                1 => { ret = Some(e2.remove(&mut c, b)); }
                2 => { ret = Some(e3.remove(&mut c, b)); }
                _ => { ret = Some(e4.remove(&mut c, b)); }
            }
        }
        WOp::ERemoveMany(k, list) =>
        {
            let mut keys: Vec<Key> = Vec::new();
            for (e, mask) in list.iter()
            {
                for (i, key) in e_keys(k, *e).into_iter().enumerate() { if mask & (1 << i) != 0 && keys.len() < 6 { keys.push(key); } }
            }
            let b = resolve(&keys);
            match k as usize % NE
            {
                0 => { ret = Some(e1.remove(&mut c, b)); }
                1 => { ret = Some(e2.remove(&mut c, b)); }
                2 => { ret = Some(e3.remove(&mut c, b)); }
                _ => { ret = Some(e4.remove(&mut c, b)); }
            }
        }
        WOp::Mutate(e) => { if let Ok(v) = rm.get_mut(&mut c, pool_entity(e)) { v.0 = v.0.wrapping_add(1); } }
        WOp::EntityEvent(e) => c.react().entity_event(pool_entity(e), Pay::<0>::new(payload)),
        WOp::Insert(e, v) => c.react().insert(pool_entity(e), CA(v)),
        WOp::RemoveComp(e) => { let ent = pool_entity(e); c.queue(move |w: &mut World| { if let Ok(mut em) = w.get_entity_mut(ent) { em.remove::<React<CA>>(); } }); }
        WOp::Despawn(e) => { let ent = pool_entity(e); c.queue(move |w: &mut World| { if let Ok(em) = w.get_entity_mut(ent) { em.despawn(); } }); }
        WOp::ResMutate => c.react().trigger_resource_mutation::<RA>(),
        WOp::Broadcast => c.react().broadcast(Pay::<0>::new(payload)),
        WOp::Broadcast1 => c.react().broadcast(Pay::<1>::new(payload)),
    }
    ret
}

//-------------------------------------------------------------------------------------------------------------------
// Model

struct Model
{
    alive: Vec<bool>,
    has_ca: Vec<bool>,
    /// keys of WD0, WD1
    wd: [Vec<Key>; 2],
    w3_start: bool,
    w3_bcast: bool,
    /// per entity reactor (0..NE), per entity: registered keys and tag
    er: [Vec<(Vec<Key>, u32)>; NE],
    expected: Vec<WLog>,
    /// removal / despawn events waiting for the next poll
    pending: bool,
    /// (index into `expected`, entity): entity-scoped removal reactions that are not polled yet; they never happen
    /// if the entity is despawned before the poll (its registrations die with it)
    unpolled_scoped: Vec<(usize, u8)>,
    classes: BTreeMap<String, u32>,
}

impl Model
{
    fn hit(&mut self, l: &str) { *self.classes.entry(l.to_string()).or_default() += 1; }

    fn expect_for(&mut self, matches: &dyn Fn(&Key) -> bool, readings: Vec<Item>, ent: Option<u8>)
    {
        for w in 0..2
        {
            let n = self.wd[w].iter().filter(|k| matches(k)).count();
            for _ in 0..n { self.expected.push(WLog{ reactor: w as u8, readings: readings.clone(), local: None }); }
        }
        if let Some(e) = ent
        {
            for k in 0..NE
            {
                let (keys, tag) = self.er[k][e as usize].clone();
                let n = keys.iter().filter(|k| matches(k)).count();
                for _ in 0..n { self.expected.push(WLog{ reactor: 3 + k as u8, readings: readings.clone(), local: Some((EntRef::Pool(e), tag)) }); }
            }
        }
    }

    fn kill(&mut self, e: u8)
    {
        self.alive[e as usize] = false;
        self.has_ca[e as usize] = false;
        for w in 0..2 { self.wd[w].retain(|k| k.entity() != Some(e) || matches!(k, Key::Despawn(_))); }
        for k in 0..NE { self.er[k][e as usize] = (Vec::new(), 0); }
    }
}

pub struct WOutcome
{
    pub violations: Vec<String>,
    /// the set of runs differed from the expected one (the part of the oracle that C01 / C06 also rely on)
    pub run_set_mismatch: bool,
    pub classes: BTreeMap<String, u32>,
}

fn is_trigger(op: &WOp) -> bool
{
    matches!(op, WOp::Mutate(_) | WOp::EntityEvent(_) | WOp::Insert(..) | WOp::RemoveComp(_) | WOp::Despawn(_) | WOp::EAddDying(..) | WOp::ResMutate | WOp::Broadcast | WOp::Broadcast1 | WOp::WRun(_))
}

fn model_despawn(m: &mut Model, e: u8)
{
    if m.alive[e as usize]
    {
        // entity-scoped removal reactions that were not polled yet die with the entity
        let mut dead: Vec<usize> = m.unpolled_scoped.iter().filter(|(_, x)| *x == e).map(|(i, _)| *i).collect();
        dead.sort();
        for i in dead.into_iter().rev()
        {
            m.expected.remove(i);
            m.unpolled_scoped.retain(|(j, _)| *j != i);
            for u in m.unpolled_scoped.iter_mut() { if u.0 > i { u.0 -= 1; } }
        }
        if m.has_ca[e as usize] { m.expect_for(&|k| *k == Key::Removal(0), vec![Item::Rem(0, EntRef::Pool(e))], None); }
        m.expect_for(&|k| *k == Key::Despawn(e), vec![Item::Desp(EntRef::Pool(e))], None);
        m.kill(e);
        for w in 0..2 { m.wd[w].retain(|k| *k != Key::Despawn(e)); }
        m.pending = true;
    }
}

fn run_inner(case: &WCase, out: &mut WOutcome, prop: &str)
{
    let n = case.n_entities.clamp(1, 4) as usize;
    let mut app = App::new();
    // the App extensions are written to work before or after `ReactPlugin` is added: both orders are generated
    let plugin_last = case.n_entities % 2 == 0;
    if !plugin_last { app.add_plugins(ReactPlugin); }
    app.add_world_reactor(WD::<0>).add_world_reactor(WD::<1>).add_world_reactor_with(W3, resource_mutation::<RA>());
    app.add_entity_reactor(E1).add_entity_reactor(E2).add_entity_reactor(E3).add_entity_reactor(E4);
    // a persistent reactor registered through the App extension
    app.add_reactor(broadcast::<Pay<1>>(), |mut r: AllReaders, mut n: Local<u32>| log_run(7, &mut r, &mut n, None));
    if plugin_last { app.add_plugins(ReactPlugin); }
    app.insert_react_resource(RA(0));
    app.insert_react_resource(crate::universe::RB(0));
    let world = app.world_mut();
    let pool: Vec<Entity> = (0..n).map(|_| world.spawn_empty().id()).collect();
    ST.with(|s| { let mut s = s.borrow_mut(); *s = St::default(); s.pool = pool.clone(); });
    with_case(|c| { *c = Case::default(); for (i, e) in pool.iter().enumerate() { c.ent_index.insert(*e, EntRef::Pool(i as u8)); } });
    // removals of CA are tracked from the start (a silent type-wide removal reactor). In the histories with three or four
    // pool entities that reactor is revoked again at once: tracking, once started, does not depend on a type-wide removal
    // reactor being left - the entity-scoped removal triggers of the entity world reactors rely on it too.
    if case.n_entities >= 3
    {
        let token = world.react(|rc| rc.on_revokable(removal::<CA>(), || {}));
        world.react(|rc| rc.revoke(token));
        garbage_collect_entities(world);
    }
    else { world.react(|rc| { rc.on_persistent(removal::<CA>(), || {}); }); }
    let mut m = Model{
        alive: vec![true; n], has_ca: vec![false; n], wd: [Vec::new(), Vec::new()], w3_start: true, w3_bcast: false,
        er: [vec![(Vec::new(), 0); n], vec![(Vec::new(), 0); n], vec![(Vec::new(), 0); n], vec![(Vec::new(), 0); n]],
        expected: Vec::new(), pending: false, unpolled_scoped: Vec::new(), classes: BTreeMap::new(),
    };
    for (i, has) in case.with_ca.iter().enumerate()
    {
        if i < n && *has { let e = pool[i]; world.react(|rc| rc.insert(e, CA(0))); m.has_ca[i] = true; }
    }
    let n_sys = verif_system_commands(world).len();
    let mut partial_removals = 0u32;
    let mut counters_seen: BTreeMap<(u8, EntRef), u32> = BTreeMap::new();
    let mut locals_seen: BTreeMap<u8, u32> = BTreeMap::new();

    let settle = |world: &mut World| {
        garbage_collect_entities(world);
        schedule_removal_and_despawn_reactors(world);
        garbage_collect_entities(world);
    };

    for (si, step) in case.steps.iter().enumerate()
    {
        let e8 = |e: u8| (e as usize % n) as u8;
        // registration changes never happen while removals / despawns are waiting for a poll
        if m.pending && !is_trigger(&step.op) { settle(world); m.pending = false; m.unpolled_scoped.clear(); }
        let payload = ST.with(|s| { let mut s = s.borrow_mut(); s.next_payload += 1; s.next_payload });
        let mut op = step.op.clone();
        let mut skip = false;
        // add / remove / run report success (`true`) unless the reactor type is missing or the entity to add is gone
        let mut want_ret: Option<bool> = Some(true);
        // normalise + model
        let expected_before = m.expected.len();
        match &mut op
        {
            WOp::WAdd(w, keys) =>
            {
                let w = (*w % 2) as usize;
                let mut eff = Vec::new();
                for k in keys.iter().map(|k| norm(*k, n as u8))
                {
                    if k.entity().map(|e| !m.alive[e as usize]).unwrap_or(false) { continue; }
                    if m.wd[w].contains(&k) || eff.contains(&k) { continue; }
                    eff.push(k);
                }
                if eff.is_empty() { skip = true; }
                m.wd[w].extend(eff.iter().copied());
                *keys = eff;
            }
            WOp::WRemove(w, keys) =>
            {
                let w = (*w % 2) as usize;
                let ks: Vec<Key> = keys.iter().map(|k| norm(*k, n as u8)).collect();
                let before = m.wd[w].len();
                m.wd[w].retain(|k| !ks.contains(k));
                if m.wd[w].len() < before && !m.wd[w].is_empty() { partial_removals += 1; m.hit("C16:partial_removal_world_reactor"); }
                *keys = ks;
            }
            WOp::WRun(w) =>
            {
                let r = *w % 3;
                m.expected.push(WLog{ reactor: r, readings: Vec::new(), local: None });
            }
            WOp::W3AddBroadcast => { if m.w3_bcast { skip = true; } m.w3_bcast = true; }
            WOp::W3Remove(start) => { if *start { m.w3_start = false; } else { m.w3_bcast = false; } }
            WOp::EAdd(k, e, tag) =>
            {
                let k = *k as usize % NE;
                *e = e8(*e);
                let e = *e;
                // re-adding is only generated after full removal (duplicate triggers are unspecified)
                if !m.alive[e as usize] { want_ret = Some(false); m.hit("C16:add_on_dead_entity"); }
                else if !m.er[k][e as usize].0.is_empty() { skip = true; }
                else { m.er[k][e as usize] = (e_keys(k as u8, e), *tag); m.hit("C16:entity_added"); }
            }
            WOp::ERemove(k, e, mask) =>
            {
                let k = *k as usize % NE;
                *e = e8(*e);
                let e_ = *e;
                *mask &= 3;
                let all = e_keys(k as u8, e_);
                let gone: Vec<Key> = all.iter().enumerate().filter(|(i, _)| *mask & (1 << i) != 0).map(|(_, k)| *k).collect();
                let before = m.er[k][e_ as usize].0.len();
                m.er[k][e_ as usize].0.retain(|x| !gone.contains(x));
                let after = m.er[k][e_ as usize].0.len();
                if after < before && after > 0 { partial_removals += 1; m.hit("C16:partial_removal_entity_reactor"); }
                if after == 0 && before > 0 { m.hit("C16:full_removal_entity_reactor"); }
            }
            WOp::ERemoveMany(k, list) =>
            {
                let k = *k as usize % NE;
                // distinct entities, at most three (six keys)
                let mut seen: Vec<u8> = Vec::new();
                let mut clean: Vec<(u8, u8)> = Vec::new();
                for (e, mask) in list.iter()
                {
                    let e = e8(*e);
                    if seen.contains(&e) || clean.len() >= 3 { continue; }
                    seen.push(e);
                    clean.push((e, (*mask & 3).max(1)));
                }
                for (e, mask) in clean.iter()
                {
                    let all = e_keys(k as u8, *e);
                    let gone: Vec<Key> = all.iter().enumerate().filter(|(i, _)| *mask & (1 << i) != 0).map(|(_, k)| *k).collect();
                    let before = m.er[k][*e as usize].0.len();
                    m.er[k][*e as usize].0.retain(|x| !gone.contains(x));
                    let after = m.er[k][*e as usize].0.len();
                    if after < before && after > 0 { partial_removals += 1; m.hit("C16:partial_removal_entity_reactor"); }
                    if after == 0 && before > 0 { m.hit("C16:full_removal_entity_reactor"); }
                }
                if clean.len() >= 2 { m.hit("C16:remove_spanning_entities"); }
                if clean.is_empty() { skip = true; }
                *list = clean;
            }
            WOp::Mutate(e) =>
            {
                let e = e8(*e);
                if m.alive[e as usize] && m.has_ca[e as usize]
                {
                    m.expect_for(&|k| *k == Key::EntityMutation(e, 0) || *k == Key::Mutation(0), vec![Item::Mut(0, EntRef::Pool(e))], Some(e));
                }
            }
            WOp::EntityEvent(e) =>
            {
                let e = e8(*e);
                if !m.alive[e as usize] { skip = true; }
                else { m.expect_for(&|k| *k == Key::EntityEvent(e, 0) || *k == Key::AnyEntityEvent(0), vec![Item::EEv(0, EntRef::Pool(e), payload)], Some(e)); }
            }
            WOp::Insert(e, _) =>
            {
                let e = e8(*e);
                if m.alive[e as usize]
                {
                    m.has_ca[e as usize] = true;
                    m.expect_for(&|k| *k == Key::EntityInsertion(e, 0) || *k == Key::Insertion(0), vec![Item::Ins(0, EntRef::Pool(e))], Some(e));
                }
            }
            WOp::RemoveComp(e) =>
            {
                let e = e8(*e);
                if m.alive[e as usize] && m.has_ca[e as usize]
                {
                    m.has_ca[e as usize] = false;
                    m.expect_for(&|k| *k == Key::Removal(0), vec![Item::Rem(0, EntRef::Pool(e))], None);
                    let scoped_from = m.expected.len();
                    m.expect_for(&|k| *k == Key::EntityRemoval(e, 0), vec![Item::Rem(0, EntRef::Pool(e))], Some(e));
                    for i in scoped_from..m.expected.len() { m.unpolled_scoped.push((i, e)); }
                    m.pending = true;
                    m.hit("C16:removal_pending");
                }
            }
            WOp::EAddDying(k, e, _) =>
            {
                let k = *k as usize % NE;
                *e = e8(*e);
                let e = *e;
                // (a second registration of an entity that still has triggers of the reactor is unspecified)
                if m.alive[e as usize] && !m.er[k][e as usize].0.is_empty() { skip = true; }
                else
                {
                    want_ret = Some(m.alive[e as usize]);
                    if m.alive[e as usize] { m.hit("C16:add_on_entity_despawned_in_the_same_batch"); }
                    model_despawn(&mut m, e);
                }
            }
            WOp::Despawn(e) => { model_despawn(&mut m, e8(*e)); }
            WOp::ResMutate =>
            {
                m.expect_for(&|k| *k == Key::ResourceMutation(0), Vec::new(), None);
                if m.w3_start { m.expected.push(WLog{ reactor: 2, readings: Vec::new(), local: None }); }
            }
            WOp::Broadcast1 => { m.expected.push(WLog{ reactor: 7, readings: vec![Item::Bcast(1, payload)], local: None }); }
            WOp::Broadcast =>
            {
                m.expect_for(&|k| *k == Key::Broadcast(0), vec![Item::Bcast(0, payload)], None);
                if m.w3_bcast { m.expected.push(WLog{ reactor: 2, readings: vec![Item::Bcast(0, payload)], local: None }); }
            }
        }
        // an in-line trigger that runs at least one reactor enters the runner, which polls first
        if !matches!(op, WOp::RemoveComp(_) | WOp::Despawn(_) | WOp::EAddDying(..)) && m.expected.len() > expected_before { m.unpolled_scoped.clear(); }
        if !skip
        {
            let ret = world.syscall((op.clone(), payload), op_sys);
            if let (Some(got), Some(want)) = (ret, want_ret)
            {
                if got != want { out.violations.push(format!("step {si} {:?}: the call returned {got}, expected {want}", step.op)); }
            }
        }

        let do_settle = step.settle || !m.pending || si + 1 == case.steps.len();
        if do_settle
        {
            settle(world);
            m.pending = false;
            m.unpolled_scoped.clear();
            // compare the window
            let (mut got, counters, locals) = ST.with(|s| { let mut s = s.borrow_mut(); (std::mem::take(&mut s.runs), std::mem::take(&mut s.counters), std::mem::take(&mut s.locals)) });
            let mut want = std::mem::take(&mut m.expected);
            got.sort();
            want.sort();
            if got != want
            {
                out.run_set_mismatch = true;
                // does the difference concern a removal / despawn reaction?
                let polled = |l: &WLog| l.readings.iter().any(|i| matches!(i, Item::Rem(..) | Item::Desp(..)));
                let mut diff: Vec<&WLog> = Vec::new();
                for l in got.iter() { if got.iter().filter(|x| *x == l).count() != want.iter().filter(|x| *x == l).count() { diff.push(l); } }
                for l in want.iter() { if got.iter().filter(|x| *x == l).count() != want.iter().filter(|x| *x == l).count() { diff.push(l); } }
                let tag = if diff.iter().any(|l| polled(l)) { " [removal / despawn reaction]" } else { "" };
                out.violations.push(format!("step {si} {:?}: runs {:?}, expected {:?}{tag}", step.op, got, want));
            }
            for (r, e, before) in counters
            {
                let c = counters_seen.entry((r, e)).or_insert(0);
                if before != *c { out.violations.push(format!("step {si}: reactor {r} ran for {:?} with local run counter {before}, expected {}", e, *c)); }
                *c = before + 1;
            }
            for (r, v) in locals
            {
                let c = locals_seen.entry(r).or_insert(0);
                if v != *c + 1 { out.violations.push(format!("step {si}: reactor {r} sees Local={v}, expected {} (system re-created or duplicated)", *c + 1)); }
                *c = v;
            }
            // local data exists exactly while the entity lives and still has a trigger of the reactor
            for e in 0..n
            {
                let alive = world.get_entity(pool[e]).is_ok();
                if alive != m.alive[e] { out.violations.push(format!("step {si}: entity {e} alive={alive}, model {}", m.alive[e])); }
                let has = [
                    verif_has_entity_world_local::<E1>(world, pool[e]),
                    verif_has_entity_world_local::<E2>(world, pool[e]),
                    verif_has_entity_world_local::<E3>(world, pool[e]),
                    verif_has_entity_world_local::<E4>(world, pool[e]),
                ];
                for k in 0..NE
                {
                    let want = m.alive[e] && !m.er[k][e].0.is_empty();
                    if has[k] != want
                    {
                        out.violations.push(format!("step {si} {:?}: entity {e} {} local data of entity reactor {k} but {}", step.op,
                            if has[k] { "carries" } else { "lacks" }, if want { "still has a trigger of it" } else { "has no trigger of it left" }));
                    }
                    // restarting counters after a full removal
                    if !want { counters_seen.remove(&(3 + k as u8, EntRef::Pool(e as u8))); }
                }
            }
            if verif_system_commands(world).len() != n_sys
            {
                out.violations.push(format!("step {si}: {} system commands exist, {n_sys} were created (a reactor system was despawned or duplicated)", verif_system_commands(world).len()));
            }
        }
        // as a side engine a history goes on past findings that are C16's alone
        if out.violations.iter().any(|m| relevant_to(prop, m)) { break; }
    }
    let multi = (0..NE).any(|k| m.er[k].iter().filter(|x| !x.0.is_empty()).count() >= 2) || m.classes.get("C16:entity_added").copied().unwrap_or(0) >= 2;
    if multi && partial_removals >= 1 { m.hit("C16:two_entities_and_partial_removal"); }
    out.classes = m.classes;
    with_case(|c| *c = Case::default());
}

fn norm(k: Key, n: u8) -> Key
{
    match k
    {
        Key::EntityEvent(e, _) => Key::EntityEvent(e % n, 0),
        Key::EntityInsertion(e, _) => Key::EntityInsertion(e % n, 0),
        Key::EntityMutation(e, _) => Key::EntityMutation(e % n, 0),
        Key::EntityRemoval(e, _) => Key::EntityRemoval(e % n, 0),
        Key::Despawn(e) => Key::Despawn(e % n),
        Key::Broadcast(2) => Key::Broadcast(2),
        Key::AnyEntityEvent(2) => Key::AnyEntityEvent(2),
        Key::Broadcast(_) => Key::Broadcast(0),
        Key::AnyEntityEvent(_) => Key::AnyEntityEvent(0),
        Key::Insertion(_) => Key::Insertion(0),
        Key::Mutation(_) => Key::Mutation(0),
        Key::Removal(_) => Key::Removal(0),
        Key::ResourceMutation(_) => Key::ResourceMutation(0),
    }
}

pub fn run_case(case: &WCase, prop: &str) -> WOutcome
{
    let mut out = WOutcome{ violations: Vec::new(), run_set_mismatch: false, classes: BTreeMap::new() };
    let r = std::panic::catch_unwind(std::panic::AssertUnwindSafe(|| run_inner(case, &mut out, prop)));
    if let Err(p) = r
    {
        let msg = if let Some(s) = p.downcast_ref::<&str>() { s.to_string() } else if let Some(s) = p.downcast_ref::<String>() { s.clone() } else { "panic".into() };
        out.violations.push(format!("panic: {msg}"));
    }
    out
}

pub fn decode(bytes: &[u8], max_steps: usize) -> WCase
{
    let mut u = Unstructured::new(bytes);
    let mut byte = |u: &mut Unstructured| -> u8 { u.arbitrary::<u8>().unwrap_or(0) };
    let below = |x: u8, n: usize| -> usize { if n <= 1 { 0 } else { (x as usize * n) >> 8 } };
    let mut case = WCase::default();
    case.n_entities = 1 + below(byte(&mut u), 4) as u8;
    for _ in 0..case.n_entities { case.with_ca.push(byte(&mut u) % 3 != 0); }
    let n = case.n_entities;
    let n_steps = below(byte(&mut u), max_steps + 1);
    let mut key = |u: &mut Unstructured| -> Key {
        let e = below(byte(u), n as usize) as u8;
        match below(byte(u), 13)
        {
            // never fired: event registrations keyed by the resource's type (revoking them must not touch the
            // resource-mutation registrations)
            11 => Key::Broadcast(2), 12 => Key::AnyEntityEvent(2),
            0 => Key::Broadcast(0), 1 => Key::AnyEntityEvent(0), 2 => Key::EntityEvent(e, 0), 3 => Key::Insertion(0), 4 => Key::Mutation(0),
            5 => Key::Removal(0), 6 => Key::EntityInsertion(e, 0), 7 => Key::EntityMutation(e, 0), 8 => Key::EntityRemoval(e, 0),
            9 => Key::ResourceMutation(0), _ => Key::Despawn(e),
        }
    };
    for _ in 0..n_steps
    {
        let k = below(byte(&mut u), 30);
        let e = below(byte(&mut u), n as usize) as u8;
        let x = byte(&mut u);
        let op = match k
        {
            0 | 1 | 2 => { let nk = 1 + below(byte(&mut u), 3); let keys = (0..nk).map(|_| key(&mut u)).collect(); WOp::WAdd(x % 2, keys) }
            3 | 4 => { let nk = 1 + below(byte(&mut u), 2); let keys = (0..nk).map(|_| key(&mut u)).collect(); WOp::WRemove(x % 2, keys) }
            5 => WOp::WRun(x % 3),
            6 => WOp::W3AddBroadcast,
            7 => WOp::W3Remove(x % 2 == 0),
            8 | 9 | 10 | 11 => WOp::EAdd(x % 4, e, 100 + x as u32),
            12 | 13 => WOp::ERemove(x % 4, e, 1 + (x / 4) % 3),
            14 =>
            {
                let cnt = 2 + below(byte(&mut u), 2);
                let list = (0..cnt).map(|_| { let e = below(byte(&mut u), n as usize) as u8; let m = 1 + byte(&mut u) % 3; (e, m) }).collect();
                WOp::ERemoveMany(x % 4, list)
            }
            15 | 16 | 17 | 18 => WOp::Mutate(e),
            19 | 20 | 21 => WOp::EntityEvent(e),
            22 => WOp::Insert(e, x % 3),
            23 | 24 => WOp::RemoveComp(e),
            25 => WOp::Despawn(e),
            26 => WOp::ResMutate,
            28 => WOp::Broadcast1,
            29 => WOp::EAddDying(x % 4, e, 100 + x as u32),
            _ => WOp::Broadcast,
        };
        let settle = byte(&mut u) % 3 != 0;
        case.steps.push(WStep{ op, settle });
    }
    case
}

/// C16 reports everything. As the side engine of another property's check only the part of the oracle that property
/// shares counts (world reactors are reactors too):
/// C01 / C06 - a wrong set of runs (a live registration skipped, a removed trigger still scheduling, a neighbour no longer
/// working); C08 - a wrong set of runs for a removal or despawn; C07 - a world reactor's system despawned (they are
/// persistent) or duplicated; C13 - its `Local` not continuous, or the system (and its state) gone; C18 - a wrong set of
/// runs (the histories name dead entities all the time). A panic counts for all.
pub fn relevant_to(prop: &str, m: &str) -> bool
{
    if prop == "C16" || m.starts_with("panic: ") { return true; }
    let run_set = m.contains(": runs [");
    let sys_count = m.contains("system commands exist");
    match prop
    {
        "C01" | "C06" | "C18" => run_set,
        "C08" => run_set && m.ends_with("[removal / despawn reaction]"),
        "C07" => sys_count,
        "C13" => sys_count || m.contains("sees Local="),
        _ => false,
    }
}

pub struct WrEngine
{
    pub prop: &'static str,
}

impl WrEngine
{
    fn relevant(&self, out: &WOutcome) -> Vec<String>
    {
        out.violations.iter().filter(|m| relevant_to(self.prop, m)).cloned().collect()
    }

    fn outcome(&self, case: &WCase) -> CaseOutcome
    {
        let out = run_case(case, self.prop);
        let mut o = CaseOutcome::default();
        o.violations = self.relevant(&out);
        o.nontrivial = out.classes.contains_key("C16:two_entities_and_partial_removal");
        o.classes = out.classes.iter().map(|(k, v)| (k.clone(), *v)).collect();
        o.digest = json!({ "steps": case.steps.len() });
        o
    }
}

impl Engine for WrEngine
{
    fn name(&self) -> &'static str { "wr16" }
    fn max_len(&self, tier: Tier) -> usize { match tier { Tier::Quick => 200, Tier::Thorough => 500 } }

    fn eval_bytes(&self, bytes: &[u8], tier: Tier) -> (Value, u64, CaseOutcome)
    {
        let case = decode(bytes, match tier { Tier::Quick => 25, Tier::Thorough => 60 });
        use std::hash::{Hash, Hasher};
        let mut h = std::collections::hash_map::DefaultHasher::new();
        case.hash(&mut h);
        let o = self.outcome(&case);
        (serde_json::to_value(&case).unwrap(), h.finish(), o)
    }

    fn eval_json(&self, case: &Value) -> Result<CaseOutcome, String>
    {
        let case: WCase = serde_json::from_value(case.clone()).map_err(|e| format!("not a wr16 case: {e}"))?;
        Ok(self.outcome(&case))
    }

    fn shrink_json(&self, case: &Value) -> Value
    {
        let Ok(mut best) = serde_json::from_value::<WCase>(case.clone()) else { return case.clone() };
        let fails = |c: &WCase| !self.relevant(&run_case(c, self.prop)).is_empty();
        loop
        {
            let mut progress = false;
            let mut i = best.steps.len();
            while i > 0
            {
                i -= 1;
                let mut cand = best.clone();
                cand.steps.remove(i);
                if fails(&cand) { best = cand; progress = true; continue; }
                if !best.steps[i].settle
                {
                    let mut cand = best.clone();
                    cand.steps[i].settle = true;
                    if fails(&cand) { best = cand; progress = true; }
                }
            }
            if !progress { break; }
        }
        serde_json::to_value(&best).unwrap()
    }
}
