//! Engine `sys17` (property C17): syscall family - keyed persistent state, effects applied on return.
//!
//! A case is a history of calls over three `fn` systems and the entry points `syscall`, `named_syscall`,
//! `register_named_system` + `named_syscall_direct`, `spawn_system` + `spawned_syscall`, `Commands::syscall`,
//! `Commands::spawned_syscall`; calls may nest (exclusive systems call other keys from their body) and may be
//! issued from commands queued by a call. Oracle: a map key -> call count predicts every return value, the
//! order of all queued-command effects and every error.

use arbitrary::Unstructured;
use bevy::prelude::*;
use bevy_cobweb::prelude::*;
use serde::{Deserialize, Serialize};
use serde_json::{json, Value};

use std::cell::RefCell;
use std::collections::{BTreeMap, HashMap};

use crate::driver::*;

#[derive(Debug, Clone, Copy, PartialEq, Eq, Hash, Serialize, Deserialize, PartialOrd, Ord)]
pub enum F
{
    A,
    B,
    N,
    /// ordinary system whose only `Commands` is nested in a `ParamSet`
    P,
}

#[derive(Debug, Clone, Copy, PartialEq, Eq, Hash, Serialize, Deserialize, PartialOrd, Ord)]
pub enum Target
{
    Syscall(F),
    Named(u8, F),
    NamedDirect(u8, F),
    Spawned(u8),
    /// `World::syscall_once`: a fresh system every time (no key, no persistent state)
    Once(F),
    /// `syscall_with_validation`: the validation function runs once, first; same key as `syscall`
    SyscallV(F),
}

#[derive(Debug, Clone, PartialEq, Eq, Hash, Serialize, Deserialize)]
pub struct CallSpec
{
    pub target: Target,
    pub x: u32,
    /// calls made from inside the body (exclusive systems only)
    pub nested: Vec<CallSpec>,
    /// calls made by commands the body queues
    pub queued: Vec<CallSpec>,
    /// despawn the entity of this spawned slot from inside the call (exclusive systems: directly in the body;
    /// ordinary ones: by a queued command) - possibly the very system that is running
    #[serde(default)]
    pub kill: Option<u8>,
}

#[derive(Debug, Clone, PartialEq, Eq, Hash, Serialize, Deserialize)]
pub enum TopOp
{
    Call(CallSpec),
    Register(u8, F),
    Spawn(F),
    DespawnSpawned(u8),
    /// `Commands::syscall(x, unit_sys)` + flush
    CmdSyscall(u32),
    /// `Commands::spawned_syscall(slot, x)` on the unit-spawned slot table + flush
    CmdSpawned(u8, u32),
    SpawnUnit,
    /// `IdMappedSystems::revoke` / `revoke_sysname` (bool: by sysname): the named system is forgotten
    RevokeNamed(u8, F, bool),
    /// `spawn_rc_system`: the spawned system lives as long as a clone of the returned signal
    SpawnRc(F),
    /// drop the signal of the k-th rc-spawned system and collect garbage
    DropRc(u8),
    /// `Commands::insert_system` on the entity of a spawned slot: replaces the stored system (fresh state)
    InsertSystem(u8, F),
    /// `Commands::syscall_once(x, unit_once_sys)` + flush
    CmdSyscallOnce(u32),
    /// `EntityCommands::syscall` (false) / `EntityCommands::syscall_once` (true) on a plain entity + flush: the same
    /// keys as the `Commands` versions
    EntCmdSyscall(u32, bool),
    /// `World::syscall(x, unit_sys)`: the very key `Commands::syscall(x, unit_sys)` uses (one state per function type,
    /// whatever the entry point)
    WorldUnitSyscall(u32),
    /// free function `spawned_syscall(world, id, x)` on a unit-spawned slot: same state as `Commands::spawned_syscall`
    WorldUnitSpawned(u8, u32),
    /// `Commands::syscall_with_validation` (false) / `Commands::syscall_once_with_validation` (true) + flush
    CmdSyscallV(u32, bool),
    /// the same two through `EntityCommands` (the same keys again)
    EntCmdSyscallV(u32, bool),
    /// mutate the plain resource the ordinary system watches through Bevy change detection
    Touch,
    /// spawn an entity carrying `QMark` plus an extra component picked by `.0`: the first of each kind creates a new
    /// archetype, which a cached system's `Query` must see at its next call
    SpawnMarked(u8),
}

#[derive(Debug, Clone, PartialEq, Eq, Hash, Serialize, Deserialize, Default)]
pub struct SysCase
{
    pub ops: Vec<TopOp>,
}

#[derive(Debug, Clone, PartialEq, Eq)]
pub struct Out
{
    f: F,
    x: u32,
    count: u32,
    nested: Vec<Result<Out, ()>>,
    /// `Res<Probe>::is_changed()` as seen by the ordinary system `sys_n` (None for the exclusive ones)
    changed: Option<bool>,
    /// number of `QMark` entities the ordinary systems see through a `Query` (None for the exclusive ones)
    marked: Option<u32>,
}

/// Marker component counted through a `Query` by the ordinary systems; the entities carrying it are spread over several
/// archetypes that come into existence between calls.
#[derive(Component)]
struct QMark;
#[derive(Component)]
struct QExtra<const K: u8>;

/// Plain resource watched through Bevy change detection by `sys_n`.
#[derive(Resource, Default)]
struct Probe(u32);

#[derive(Debug, Clone, PartialEq, Eq)]
enum Effect
{
    /// written by a custom `SystemBuffer` (`Deferred<MarkBuf>`) of the ordinary system when its deferred work is applied
    Buffered(F, u32, u32),
    Marker(F, u32, u32),
    QueuedResult(Result<Out, ()>),
    Unit(u32, u32),
    UnitSpawned(u32, u32),
    UnitOnce(u32, u32),
    Validated,
}

/// Expected output; `count: None` = unconstrained (a re-entrant call on a running syscall / named key runs on
/// state that is documented not to persist).
#[derive(Debug, Clone, PartialEq, Eq)]
struct ExpOut
{
    f: F,
    x: u32,
    count: Option<u32>,
    nested: Vec<Result<ExpOut, ()>>,
    /// None: unconstrained
    changed: Option<bool>,
    marked: Option<u32>,
}

#[derive(Debug, Clone, PartialEq, Eq)]
enum ExpEffect
{
    Buffered(F, u32, Option<u32>),
    Marker(F, u32, Option<u32>),
    QueuedResult(Result<ExpOut, ()>),
    Unit(u32, u32),
    UnitSpawned(u32, u32),
    UnitOnce(u32, u32),
    Validated,
}

fn out_matches(got: &Result<Out, ()>, want: &Result<ExpOut, ()>) -> bool
{
    match (got, want)
    {
        (Err(()), Err(())) => true,
        (Ok(g), Ok(w)) =>
            g.f == w.f && g.x == w.x && w.count.map(|c| c == g.count).unwrap_or(true) && g.nested.len() == w.nested.len()
                && (w.changed.is_none() || g.changed.is_none() || w.changed == g.changed)
                && (w.marked.is_none() || g.marked.is_none() || w.marked == g.marked)
                && g.nested.iter().zip(w.nested.iter()).all(|(a, b)| out_matches(a, b)),
        _ => false,
    }
}

fn effect_matches(got: &Effect, want: &ExpEffect) -> bool
{
    match (got, want)
    {
        (Effect::Buffered(f, x, c), ExpEffect::Buffered(f2, x2, c2)) => f == f2 && x == x2 && c2.map(|w| w == *c).unwrap_or(true),
        (Effect::Marker(f, x, c), ExpEffect::Marker(f2, x2, c2)) => f == f2 && x == x2 && c2.map(|w| w == *c).unwrap_or(true),
        (Effect::QueuedResult(r), ExpEffect::QueuedResult(w)) => out_matches(r, w),
        (Effect::Unit(a, b), ExpEffect::Unit(c, d)) => a == c && b == d,
        (Effect::UnitSpawned(a, b), ExpEffect::UnitSpawned(c, d)) => a == c && b == d,
        (Effect::UnitOnce(a, b), ExpEffect::UnitOnce(c, d)) => a == c && b == d,
        (Effect::Validated, ExpEffect::Validated) => true,
        _ => false,
    }
}

#[derive(Default)]
struct State
{
    effects: Vec<Effect>,
    slots: Vec<Option<SysId>>,
    unit_slots: Vec<SysId>,
    /// (slot index, signal) of rc-spawned systems
    rc: Vec<(usize, Option<AutoDespawnSignal>)>,
}

thread_local!
{
    static ST: RefCell<State> = RefCell::new(State::default());
}

fn effect(e: Effect) { ST.with(|s| s.borrow_mut().effects.push(e)); }

fn name_of<S: 'static>(_s: S, id: u8) -> SysName { SysName::new::<S>(id) }

fn validate(_w: &mut World) { effect(Effect::Validated); }

fn perform(world: &mut World, spec: &CallSpec) -> Result<Out, ()>
{
    let plan = spec.clone();
    match spec.target
    {
        Target::Syscall(F::A) => Ok(syscall(world, plan, sys_a)),
        Target::Syscall(F::B) => Ok(world.syscall(plan, sys_b)),
        Target::Syscall(F::N) => Ok(syscall(world, plan, sys_n)),
        Target::Syscall(F::P) => Ok(syscall(world, plan, sys_p)),
        Target::Named(n, F::A) => Ok(named_syscall(world, n, plan, sys_a)),
        Target::Named(n, F::B) => Ok(named_syscall(world, n, plan, sys_b)),
        Target::Named(n, F::N) => Ok(named_syscall(world, n, plan, sys_n)),
        Target::Named(n, F::P) => Ok(named_syscall(world, n, plan, sys_p)),
        Target::NamedDirect(n, F::A) => named_syscall_direct::<In<CallSpec>, Out>(world, name_of(sys_a, n), plan).map_err(|_| ()),
        Target::NamedDirect(n, F::B) => named_syscall_direct::<In<CallSpec>, Out>(world, name_of(sys_b, n), plan).map_err(|_| ()),
        Target::NamedDirect(n, F::N) => named_syscall_direct::<In<CallSpec>, Out>(world, name_of(sys_n, n), plan).map_err(|_| ()),
        Target::NamedDirect(n, F::P) => named_syscall_direct::<In<CallSpec>, Out>(world, name_of(sys_p, n), plan).map_err(|_| ()),
        Target::SyscallV(F::A) => Ok(syscall_with_validation(world, plan, sys_a, validate)),
        Target::SyscallV(F::B) => Ok(world.syscall_with_validation(plan, sys_b, validate)),
        Target::SyscallV(F::N) => Ok(syscall_with_validation(world, plan, sys_n, validate)),
        Target::SyscallV(F::P) => Ok(syscall_with_validation(world, plan, sys_p, validate)),
        Target::Once(F::A) => Ok(world.syscall_once(plan, sys_a)),
        Target::Once(F::B) => Ok(world.syscall_once(plan, sys_b)),
        Target::Once(F::N) => Ok(world.syscall_once(plan, sys_n)),
        Target::Once(F::P) => Ok(world.syscall_once(plan, sys_p)),
        Target::Spawned(slot) =>
        {
            let id = ST.with(|s| { let s = s.borrow(); if s.slots.is_empty() { None } else { s.slots[slot as usize % s.slots.len()] } });
            match id
            {
                Some(id) => spawned_syscall::<In<CallSpec>, Out>(world, id, plan),
                None => Err(()),
            }
        }
    }
}

fn kill_slot(world: &mut World, k: u8)
{
    let id = ST.with(|s| { let s = s.borrow(); if s.slots.is_empty() { None } else { s.slots[k as usize % s.slots.len()] } });
    if let Some(id) = id { if let Ok(e) = world.get_entity_mut(id.entity()) { e.despawn(); } }
}

fn queue_effects(world: &mut World, f: F, plan: &CallSpec, count: u32)
{
    let x = plan.x;
    world.commands().queue(move |_w: &mut World| effect(Effect::Marker(f, x, count)));
    for q in plan.queued.iter().cloned()
    {
        world.commands().queue(move |w: &mut World| { let r = perform(w, &q); effect(Effect::QueuedResult(r)); });
    }
}

fn sys_a(In(plan): In<CallSpec>, world: &mut World, mut local: Local<u32>) -> Out
{
    *local += 1;
    let count = *local;
    let nested = plan.nested.iter().map(|n| perform(world, n)).collect();
    if let Some(k) = plan.kill { kill_slot(world, k); }
    queue_effects(world, F::A, &plan, count);
    Out{ f: F::A, x: plan.x, count, nested, changed: None, marked: None }
}

fn sys_b(In(plan): In<CallSpec>, world: &mut World, mut local: Local<u32>) -> Out
{
    *local += 1;
    let count = *local;
    let nested = plan.nested.iter().map(|n| perform(world, n)).collect();
    if let Some(k) = plan.kill { kill_slot(world, k); }
    queue_effects(world, F::B, &plan, count);
    Out{ f: F::B, x: plan.x, count, nested, changed: None, marked: None }
}

/// A normal (non-exclusive) system: it can only queue.
/// A user-defined deferred buffer: not `Commands`, so only `System::apply_deferred` ever applies it.
#[derive(Default)]
struct MarkBuf(Vec<(F, u32, u32)>);

impl bevy::ecs::system::SystemBuffer for MarkBuf
{
    fn apply(&mut self, _meta: &bevy::ecs::system::SystemMeta, _world: &mut World)
    {
        for (f, x, c) in self.0.drain(..) { effect(Effect::Buffered(f, x, c)); }
    }
}

fn sys_n(In(plan): In<CallSpec>, mut buf: Deferred<MarkBuf>, mut c: Commands, mut local: Local<u32>, probe: Res<Probe>, marks: Query<&QMark>) -> Out
{
    let changed = Some(probe.is_changed());
    *local += 1;
    let count = *local;
    let x = plan.x;
    buf.0.push((F::N, x, count));
    c.queue(move |_w: &mut World| effect(Effect::Marker(F::N, x, count)));
    if let Some(k) = plan.kill { c.queue(move |w: &mut World| kill_slot(w, k)); }
    for q in plan.queued.iter().cloned()
    {
        c.queue(move |w: &mut World| { let r = perform(w, &q); effect(Effect::QueuedResult(r)); });
    }
    Out{ f: F::N, x, count, nested: Vec::new(), changed, marked: Some(marks.iter().count() as u32) }
}

/// Like `sys_n`, but its only `Commands` is nested in a `ParamSet` (deferred work hidden from `System::has_deferred`).
fn sys_p(In(plan): In<CallSpec>, mut ps: ParamSet<(Commands, Query<Entity, With<QMark>>)>, mut local: Local<u32>) -> Out
{
    *local += 1;
    let count = *local;
    let x = plan.x;
    let marked = ps.p1().iter().count() as u32;
    let mut c = ps.p0();
    c.queue(move |_w: &mut World| effect(Effect::Marker(F::P, x, count)));
    if let Some(k) = plan.kill { c.queue(move |w: &mut World| kill_slot(w, k)); }
    for q in plan.queued.iter().cloned()
    {
        c.queue(move |w: &mut World| { let r = perform(w, &q); effect(Effect::QueuedResult(r)); });
    }
    Out{ f: F::P, x, count, nested: Vec::new(), changed: None, marked: Some(marked) }
}

/// The owner of a callback may initialise it (any number of times) before handing it to a `_from` entry point.
fn pre_init<I, O>(world: &mut World, mut cb: CallbackSystem<I, O>, times: usize) -> CallbackSystem<I, O>
where
    I: bevy::ecs::system::SystemInput + Send + Sync + 'static,
    O: Send + Sync + 'static,
{
    for _ in 0..times { cb.initialize(world); }
    cb
}

fn unit_sys(In(x): In<u32>, mut local: Local<u32>)
{
    *local += 1;
    effect(Effect::Unit(x, *local));
}

fn unit_once_sys(In(x): In<u32>, mut local: Local<u32>)
{
    *local += 1;
    effect(Effect::UnitOnce(x, *local));
}

fn revoke_of<S: 'static>(_s: S, m: &mut IdMappedSystems<In<CallSpec>, Out>, id: u8, by_name: bool)
{
    let name = SysName::new::<S>(id);
    // the raw constructor and the accessors describe the same name
    assert!(SysName::new_raw::<S>(name.id()) == name && name.type_id() == std::any::TypeId::of::<S>(), "SysName accessors disagree");
    if by_name { m.revoke_sysname(name); } else { m.revoke::<S>(id); }
}

fn unit_spawned_sys(In(x): In<u32>, mut local: Local<u32>)
{
    *local += 1;
    effect(Effect::UnitSpawned(x, *local));
}

//-------------------------------------------------------------------------------------------------------------------
// Model

#[derive(Debug, Clone, Copy, PartialEq, Eq, Hash, PartialOrd, Ord)]
enum Key
{
    Syscall(F),
    Named(u8, F),
    Spawned(usize),
}

#[derive(Default)]
struct Model
{
    counts: HashMap<Key, u32>,
    named_exists: HashMap<(u8, F), bool>,
    /// named keys on which a re-entrant `named_syscall` ran while the cached system was out (it leaves its own system in
    /// the map until the outer call puts the cached one back); never cleared (conservative)
    overwritten: Vec<(u8, F)>,
    /// per spawned slot: (function, alive)
    slots: Vec<(F, bool)>,
    running: Vec<Key>,
    unit_count: u32,
    unit_slots: Vec<u32>,
    /// number of `Touch` ops so far, and per key the number its system saw at its last run (absent: fresh state)
    touches: u64,
    /// number of `QMark` entities spawned so far
    marked: u32,
    seen: HashMap<Key, u64>,
    effects: Vec<ExpEffect>,
    classes: BTreeMap<String, u32>,
}

impl Model
{
    fn hit(&mut self, l: &str) { *self.classes.entry(l.to_string()).or_default() += 1; }

    /// Predicts a call (and, for exclusive systems, everything nested in it). Effects of queued commands are
    /// appended in the order the framework must apply them: after the body, before the call returns.
    fn call(&mut self, spec: &CallSpec, depth: u32) -> Result<ExpOut, ()>
    {
        if let Target::Once(f) = spec.target
        {
            // a fresh system per call: count 1, nothing persists, never "running" under a key
            if depth > 0 { self.hit("C17:nested_or_command_issued"); }
            self.hit("C17:syscall_once");
            let nested: Vec<Result<ExpOut, ()>> = if f == F::N || f == F::P { Vec::new() } else { spec.nested.iter().map(|n| self.call(n, depth + 1)).collect() };
            if let Some(k) = spec.kill { if !self.slots.is_empty() { let i = k as usize % self.slots.len(); self.slots[i].1 = false; } }
            if f == F::N { self.effects.push(ExpEffect::Buffered(f, spec.x, Some(1))); }
            self.effects.push(ExpEffect::Marker(f, spec.x, Some(1)));
            for q in spec.queued.iter()
            {
                let r = self.call(q, depth + 1);
                self.effects.push(ExpEffect::QueuedResult(r));
            }
            // a fresh system: everything counts as changed
            return Ok(ExpOut{ f, x: spec.x, count: Some(1), nested, changed: if f == F::N { Some(true) } else { None }, marked: if f == F::N || f == F::P { Some(self.marked) } else { None } });
        }
        let (key, f) = match spec.target
        {
            Target::Once(_) => unreachable!(),
            Target::SyscallV(f) => { self.hit("C17:with_validation"); (Key::Syscall(f), f) }
            Target::Syscall(f) => (Key::Syscall(f), f),
            Target::Named(n, f) =>
            {
                self.named_exists.insert((n, f), true);
                if self.running.contains(&Key::Named(n, f)) && !self.overwritten.contains(&(n, f)) { self.overwritten.push((n, f)); }
                (Key::Named(n, f), f)
            }
            Target::NamedDirect(n, f) =>
            {
                if !self.named_exists.get(&(n, f)).copied().unwrap_or(false) { self.hit("C17:direct_unknown_name"); return Err(()); }
                // the cached system is out while its key runs: the direct call finds nothing, runs nothing and leaves
                // the key's state alone (unless a re-entrant `named_syscall` left its own system there, see `reenters`)
                if self.running.contains(&Key::Named(n, f)) && !self.overwritten.contains(&(n, f)) { self.hit("C17:direct_on_running_key"); return Err(()); }
                (Key::Named(n, f), f)
            }
            Target::Spawned(slot) =>
            {
                if self.slots.is_empty() { self.hit("C17:spawned_missing"); return Err(()); }
                let i = slot as usize % self.slots.len();
                let (f, alive) = self.slots[i];
                if !alive { self.hit("C17:spawned_despawned"); return Err(()); }
                if self.running.contains(&Key::Spawned(i)) { self.hit("C17:spawned_running"); return Err(()); }
                (Key::Spawned(i), f)
            }
        };
        if depth > 0 { self.hit("C17:nested_or_command_issued"); }
        // re-entering a running syscall / named key: runs once on state that does not persist (documented);
        // the outer-most invocation's state is the one that is kept
        let reentrant = self.running.contains(&key);
        let count = if reentrant { self.hit("C17:reentrant_same_key"); None } else { let c = self.counts.entry(key).or_default(); *c += 1; Some(*c) };
        // documented: the validation function is called when the system is run for the first time, i.e. whenever
        // the cached system has to be created (first use of the key, or a re-entrant call while the cached one is out)
        if matches!(spec.target, Target::SyscallV(_)) && count == Some(1) { self.effects.push(ExpEffect::Validated); }
        // change detection of the ordinary system: its baseline is the start of its own previous run (part of the
        // key's state); a fresh state sees everything as changed
        let changed = if f != F::N || reentrant { None } else
        {
            let c = match self.seen.get(&key) { None => true, Some(n) => self.touches > *n };
            self.seen.insert(key, self.touches);
            if c && self.counts.get(&key).copied().unwrap_or(0) > 1 { self.hit("C17:change_detected_across_calls"); }
            Some(c)
        };
        self.running.push(key);
        let nested: Vec<Result<ExpOut, ()>> = if f == F::N || f == F::P { Vec::new() } else { spec.nested.iter().map(|n| self.call(n, depth + 1)).collect() };
        // a call may despawn a spawned system (even itself): it still returns its output; later calls on that slot fail
        if let Some(k) = spec.kill
        {
            if !self.slots.is_empty() { let i = k as usize % self.slots.len(); self.slots[i].1 = false; self.hit("C17:spawned_system_despawned_during_a_call"); }
        }
        // the body's commands: marker first, then the queued calls in order
        // the ordinary system's own deferred buffer comes first in its parameter list, so it is applied first
        if f == F::N { self.effects.push(ExpEffect::Buffered(f, spec.x, count)); }
        self.effects.push(ExpEffect::Marker(f, spec.x, count));
        for q in spec.queued.iter()
        {
            let r = self.call(q, depth + 1);
            self.effects.push(ExpEffect::QueuedResult(r));
        }
        self.running.pop();
        Ok(ExpOut{ f, x: spec.x, count, nested, changed, marked: if f == F::N || f == F::P { Some(self.marked) } else { None } })
    }
}

/// `named_syscall_direct` on a key that is currently running is generated only while no re-entrant `named_syscall` ran
/// on that key earlier in the history (`overwritten`; afterwards whether it finds a system depends on what that nested
/// call left behind): it must return an error, run nothing and leave the key's state alone. Re-entrant `syscall` /
/// `named_syscall` are generated (documented behaviour).
fn reenters(stack: &[Target], target: Target, overwritten: &[(u8, F)]) -> bool
{
    let key = |t: Target| match t { Target::Named(n, f) | Target::NamedDirect(n, f) => Some((n, f)), _ => None };
    // `syscall_with_validation` on a running syscall key: whether the validation function runs again depends on
    // whether an earlier re-entrant call left its own system behind (documented: that state does not persist)
    let skey = |t: Target| match t { Target::Syscall(f) | Target::SyscallV(f) => Some(f), _ => None };
    match target
    {
        Target::NamedDirect(n, f) => stack.iter().any(|s| key(*s) == key(target)) && overwritten.contains(&(n, f)),
        Target::SyscallV(_) => stack.iter().any(|s| skey(*s) == skey(target)),
        _ => false,
    }
}

//-------------------------------------------------------------------------------------------------------------------

pub struct SysOutcome
{
    pub violations: Vec<String>,
    pub classes: BTreeMap<String, u32>,
    pub keys_used: usize,
}

fn run_inner(case: &SysCase, out: &mut SysOutcome)
{
    ST.with(|s| *s.borrow_mut() = State::default());
    let mut app = App::new();
    app.setup_auto_despawn();
    let mut world = std::mem::take(app.world_mut());
    let mut model = Model::default();
    let plain_entity = world.spawn_empty().id();
    world.insert_resource(Probe::default());
    for (i, op) in case.ops.iter().enumerate()
    {
        let before = ST.with(|s| s.borrow().effects.len());
        let mbefore = model.effects.len();
        match op
        {
            TopOp::Call(spec) =>
            {
                let want = model.call(spec, 0);
                let got = perform(&mut world, spec);
                if !out_matches(&got, &want) { out.violations.push(format!("op {i} {:?}: returned {:?}, expected {:?}", spec.target, got, want)); }
            }
            TopOp::Register(n, f) =>
            {
                // a callback handed over through a `_from` entry point may have been initialised by its owner before (0-2 times)
                let pre = (i / 2) % 3;
                match (f, *n % 2)
                {
                    (F::A, 0) => register_named_system(&mut world, name_of(sys_a, *n), sys_a),
                    (F::B, 0) => register_named_system(&mut world, name_of(sys_b, *n), sys_b),
                    (F::N, 0) => register_named_system(&mut world, name_of(sys_n, *n), sys_n),
                    (F::P, 0) => register_named_system(&mut world, name_of(sys_p, *n), sys_p),
                    (F::A, _) => { let cb = pre_init(&mut world, CallbackSystem::new(sys_a), pre); register_named_system_from(&mut world, name_of(sys_a, *n), cb) },
                    (F::B, _) => { let cb = pre_init(&mut world, CallbackSystem::new(sys_b), pre); register_named_system_from(&mut world, name_of(sys_b, *n), cb) },
                    (F::N, _) => { let cb = pre_init(&mut world, CallbackSystem::new(sys_n), pre); register_named_system_from(&mut world, name_of(sys_n, *n), cb) },
                    (F::P, _) => { let cb = pre_init(&mut world, CallbackSystem::new(sys_p), pre); register_named_system_from(&mut world, name_of(sys_p, *n), cb) },
                }
                // a (re-)registered system starts with fresh state
                model.counts.insert(Key::Named(*n, *f), 0);
                model.seen.remove(&Key::Named(*n, *f));
                model.named_exists.insert((*n, *f), true);
                model.hit("C17:register_named");
            }
            TopOp::Spawn(f) =>
            {
                let pre = (i / 3) % 3;
                let id = match (f, i % 3)
                {
                    (F::A, 0) => spawn_system(&mut world, sys_a),
                    (F::B, 0) => spawn_system(&mut world, sys_b),
                    (F::N, 0) => spawn_system(&mut world, sys_n),
                    (F::P, 0) => spawn_system(&mut world, sys_p),
                    (F::A, 1) => { let cb = pre_init(&mut world, CallbackSystem::new(sys_a), pre); spawn_system_from(&mut world, cb) },
                    (F::B, 1) => { let cb = pre_init(&mut world, CallbackSystem::new(sys_b), pre); spawn_system_from(&mut world, cb) },
                    (F::N, 1) => { let cb = pre_init(&mut world, CallbackSystem::new(sys_n), pre); spawn_system_from(&mut world, cb) },
                    (F::P, 1) => { let cb = pre_init(&mut world, CallbackSystem::new(sys_p), pre); spawn_system_from(&mut world, cb) },
                    (F::A, _) => { let cb = pre_init(&mut world, CallbackSystem::new(sys_a), pre); let id = world.commands().spawn_system_from(cb); world.flush(); id }
                    (F::B, _) => { let id = world.commands().spawn_system(sys_b); world.flush(); id }
                    (F::N, _) => { let cb = pre_init(&mut world, CallbackSystem::new(sys_n), pre); let id = world.commands().spawn_system_from(cb); world.flush(); id }
                    (F::P, _) => { let cb = pre_init(&mut world, CallbackSystem::new(sys_p), pre); let id = world.commands().spawn_system_from(cb); world.flush(); id }
                };
                ST.with(|s| s.borrow_mut().slots.push(Some(id)));
                model.slots.push((*f, true));
            }
            TopOp::DespawnSpawned(slot) =>
            {
                if !model.slots.is_empty()
                {
                    let k = *slot as usize % model.slots.len();
                    let id = ST.with(|s| s.borrow().slots[k]);
                    if let Some(id) = id { if let Ok(e) = world.get_entity_mut(id.entity()) { e.despawn(); } }
                    model.slots[k].1 = false;
                }
            }
            TopOp::CmdSyscall(x) =>
            {
                world.commands().syscall(*x, unit_sys);
                world.flush();
                model.unit_count += 1;
                model.effects.push(ExpEffect::Unit(*x, model.unit_count));
                model.hit("C17:commands_syscall");
            }
            TopOp::SpawnUnit =>
            {
                let id = world.commands().spawn_system(unit_spawned_sys);
                world.flush();
                ST.with(|s| s.borrow_mut().unit_slots.push(id));
                model.unit_slots.push(0);
            }
            TopOp::RevokeNamed(n, f, by_name) =>
            {
                if let Some(mut m) = world.get_resource_mut::<IdMappedSystems<In<CallSpec>, Out>>()
                {
                    match f
                    {
                        F::A => revoke_of(sys_a, &mut m, *n, *by_name),
                        F::B => revoke_of(sys_b, &mut m, *n, *by_name),
                        F::N => revoke_of(sys_n, &mut m, *n, *by_name),
                        F::P => revoke_of(sys_p, &mut m, *n, *by_name),
                    }
                }
                if model.named_exists.get(&(*n, *f)).copied().unwrap_or(false) { model.hit("C17:revoke_named"); }
                model.named_exists.insert((*n, *f), false);
                model.counts.insert(Key::Named(*n, *f), 0);
                model.seen.remove(&Key::Named(*n, *f));
            }
            TopOp::SpawnRc(f) =>
            {
                let sig = match f
                {
                    F::A => spawn_rc_system(&mut world, sys_a),
                    F::B => spawn_rc_system(&mut world, sys_b),
                    F::N => spawn_rc_system(&mut world, sys_n),
                    F::P => spawn_rc_system(&mut world, sys_p),
                };
                let id = SysId::new(sig.entity());
                ST.with(|s| { let mut s = s.borrow_mut(); s.slots.push(Some(id)); let k = s.slots.len() - 1; s.rc.push((k, Some(sig))); });
                model.slots.push((*f, true));
                model.hit("C17:spawn_rc");
            }
            TopOp::DropRc(k) =>
            {
                let dropped = ST.with(|s| {
                    let mut s = s.borrow_mut();
                    if s.rc.is_empty() { return None; }
                    let i = *k as usize % s.rc.len();
                    let slot = s.rc[i].0;
                    s.rc[i].1.take().map(|sig| { drop(sig); slot })
                });
                // a collection with nothing dropped changes nothing
                garbage_collect_entities(&mut world);
                if let Some(slot) = dropped { model.slots[slot].1 = false; model.hit("C17:rc_dropped"); }
            }
            TopOp::InsertSystem(slot, f) =>
            {
                if !model.slots.is_empty()
                {
                    let k = *slot as usize % model.slots.len();
                    let id = ST.with(|s| s.borrow().slots[k]).unwrap();
                    let r = match f
                    {
                        F::A => world.commands().insert_system(id.entity(), sys_a),
                        F::B => world.commands().insert_system(id.entity(), sys_b),
                        F::N => world.commands().insert_system(id.entity(), sys_n),
                        F::P => world.commands().insert_system(id.entity(), sys_p),
                    };
                    world.flush();
                    let alive = model.slots[k].1;
                    if r.is_ok() != alive { out.violations.push(format!("op {i}: insert_system on a {} entity returned {:?}", if alive { "live" } else { "despawned" }, r)); }
                    if alive
                    {
                        model.slots[k].0 = *f;
                        model.counts.insert(Key::Spawned(k), 0);
                        model.seen.remove(&Key::Spawned(k));
                        model.hit("C17:insert_system");
                    }
                }
            }
            TopOp::CmdSyscallOnce(x) =>
            {
                world.commands().syscall_once(*x, unit_once_sys);
                world.flush();
                model.effects.push(ExpEffect::UnitOnce(*x, 1));
                model.hit("C17:commands_syscall_once");
            }
            TopOp::EntCmdSyscall(x, once) =>
            {
                if *once { world.commands().entity(plain_entity).syscall_once(*x, unit_once_sys); }
                else { world.commands().entity(plain_entity).syscall(*x, unit_sys); }
                world.flush();
                if *once { model.effects.push(ExpEffect::UnitOnce(*x, 1)); }
                else { model.unit_count += 1; model.effects.push(ExpEffect::Unit(*x, model.unit_count)); }
                model.hit("C17:entity_commands_syscall");
            }
            TopOp::CmdSyscallV(x, once) | TopOp::EntCmdSyscallV(x, once) =>
            {
                if matches!(op, TopOp::EntCmdSyscallV(..))
                {
                    if *once { world.commands().entity(plain_entity).syscall_once_with_validation(*x, unit_once_sys, validate); }
                    else { world.commands().entity(plain_entity).syscall_with_validation(*x, unit_sys, validate); }
                }
                else if *once { world.commands().syscall_once_with_validation(*x, unit_once_sys, validate); }
                else { world.commands().syscall_with_validation(*x, unit_sys, validate); }
                world.flush();
                if *once { model.effects.push(ExpEffect::Validated); model.effects.push(ExpEffect::UnitOnce(*x, 1)); }
                else
                {
                    if model.unit_count == 0 { model.effects.push(ExpEffect::Validated); }
                    model.unit_count += 1;
                    model.effects.push(ExpEffect::Unit(*x, model.unit_count));
                }
                model.hit("C17:commands_with_validation");
            }
            TopOp::SpawnMarked(kind) =>
            {
                match kind % 4
                {
                    0 => { world.spawn(QMark); }
                    1 => { world.spawn((QMark, QExtra::<1>)); }
                    2 => { world.spawn((QMark, QExtra::<2>)); }
                    _ => { world.spawn((QMark, QExtra::<1>, QExtra::<2>)); }
                }
                model.marked += 1;
                model.hit("C17:new_entity_for_the_queries");
            }
            TopOp::Touch =>
            {
                world.resource_mut::<Probe>().0 += 1;
                model.touches += 1;
            }
            TopOp::WorldUnitSyscall(x) =>
            {
                world.syscall(*x, unit_sys);
                model.unit_count += 1;
                model.effects.push(ExpEffect::Unit(*x, model.unit_count));
                model.hit("C17:one_key_two_entry_points");
            }
            TopOp::WorldUnitSpawned(slot, x) =>
            {
                if !model.unit_slots.is_empty()
                {
                    let k = *slot as usize % model.unit_slots.len();
                    let id = ST.with(|s| s.borrow().unit_slots[k]);
                    let r = spawned_syscall::<In<u32>, ()>(&mut world, id, *x);
                    if r.is_err() { out.violations.push(format!("op {i}: spawned_syscall on a live spawned system returned an error")); }
                    model.unit_slots[k] += 1;
                    model.effects.push(ExpEffect::UnitSpawned(*x, model.unit_slots[k]));
                    model.hit("C17:one_key_two_entry_points");
                }
            }
            TopOp::CmdSpawned(slot, x) =>
            {
                if !model.unit_slots.is_empty()
                {
                    let k = *slot as usize % model.unit_slots.len();
                    let id = ST.with(|s| s.borrow().unit_slots[k]);
                    world.commands().spawned_syscall::<In<u32>>(id, *x);
                    world.flush();
                    model.unit_slots[k] += 1;
                    model.effects.push(ExpEffect::UnitSpawned(*x, model.unit_slots[k]));
                    model.hit("C17:commands_spawned_syscall");
                }
            }
        }
        // every queued effect is visible as soon as the entry point returns, in order
        let got: Vec<Effect> = ST.with(|s| s.borrow().effects[before..].to_vec());
        let want: Vec<ExpEffect> = model.effects[mbefore..].to_vec();
        if got.len() != want.len() || !got.iter().zip(want.iter()).all(|(g, w)| effect_matches(g, w))
        {
            out.violations.push(format!("op {i} {:?}: effects visible on return {:?}, expected {:?}", op, got, want));
        }
        if !out.violations.is_empty() { break; }
    }
    out.keys_used = model.counts.len();
    out.classes = model.classes;
}

pub fn run_case(case: &SysCase) -> SysOutcome
{
    let mut out = SysOutcome{ violations: Vec::new(), classes: BTreeMap::new(), keys_used: 0 };
    let r = std::panic::catch_unwind(std::panic::AssertUnwindSafe(|| run_inner(case, &mut out)));
    if let Err(p) = r
    {
        let msg = if let Some(s) = p.downcast_ref::<&str>() { s.to_string() } else if let Some(s) = p.downcast_ref::<String>() { s.clone() } else { "panic".into() };
        out.violations.push(format!("panic: {msg}"));
    }
    out
}

//-------------------------------------------------------------------------------------------------------------------
// Generation

struct Dec<'a>
{
    u: Unstructured<'a>,
    next_x: u32,
    /// generation order is execution order (body calls, then queued calls, depth first)
    overwritten: Vec<(u8, F)>,
}

impl<'a> Dec<'a>
{
    fn byte(&mut self) -> u8 { self.u.arbitrary::<u8>().unwrap_or(0) }
    fn below(&mut self, n: usize) -> usize { if n <= 1 { 0 } else { (self.byte() as usize * n) >> 8 } }
    fn f(&mut self) -> F { match self.below(4) { 0 => F::A, 1 => F::B, 2 => F::N, _ => F::P } }

    fn target(&mut self) -> Target
    {
        match self.below(10)
        {
            8 => Target::Once(self.f()),
            9 => Target::SyscallV(self.f()),
            0 | 1 => Target::Syscall(self.f()),
            2 | 3 => { let n = self.below(3) as u8; Target::Named(n, self.f()) }
            4 => { let n = self.below(3) as u8; Target::NamedDirect(n, self.f()) }
            _ => Target::Spawned(self.below(4) as u8),
        }
    }

    fn spec(&mut self, stack: &mut Vec<Target>, depth: u32) -> Option<CallSpec>
    {
        let mut target = self.target();
        // one nested / queued call in eight goes straight back to the named key that is running right now
        if let Some(Target::Named(n, f) | Target::NamedDirect(n, f)) = stack.last().copied()
        {
            if self.byte() % 8 == 0 { target = Target::NamedDirect(n, f); }
        }
        // never re-enter a running syscall / named key (unsupported by the documentation)
        let mut tries = 0;
        while reenters(stack, target, &self.overwritten) && tries < 4 { target = self.target(); tries += 1; }
        if reenters(stack, target, &self.overwritten) { return None; }
        if let Target::Named(n, f) = target
        {
            let running = stack.iter().any(|s| matches!(*s, Target::Named(m, g) | Target::NamedDirect(m, g) if m == n && g == f));
            if running && !self.overwritten.contains(&(n, f)) { self.overwritten.push((n, f)); }
        }
        self.next_x += 1;
        let x = self.next_x;
        let kill = if self.byte() % 8 == 0 { Some(self.below(4) as u8) } else { None };
        let mut spec = CallSpec{ target, x, nested: Vec::new(), queued: Vec::new(), kill };
        if depth < 3
        {
            stack.push(target);
            let n_nested = if self.byte() % 3 == 0 { self.below(3) } else { 0 };
            for _ in 0..n_nested { if let Some(s) = self.spec(stack, depth + 1) { spec.nested.push(s); } }
            let n_queued = if self.byte() % 3 == 0 { self.below(3) } else { 0 };
            for _ in 0..n_queued { if let Some(s) = self.spec(stack, depth + 1) { spec.queued.push(s); } }
            stack.pop();
        }
        Some(spec)
    }
}

pub fn decode(bytes: &[u8], max_ops: usize) -> SysCase
{
    let mut d = Dec{ u: Unstructured::new(bytes), next_x: 0, overwritten: Vec::new() };
    let n = d.below(max_ops + 1);
    let mut case = SysCase::default();
    for _ in 0..n
    {
        let op = match d.below(26)
        {
            21 | 22 => TopOp::Touch,
            24 | 25 => TopOp::SpawnMarked(d.byte()),
            20 => { d.next_x += 1; TopOp::CmdSyscallV(d.next_x, d.byte() & 1 == 1) }
            23 => { d.next_x += 1; TopOp::EntCmdSyscallV(d.next_x, d.byte() & 1 == 1) }
            18 => { d.next_x += 1; TopOp::WorldUnitSyscall(d.next_x) }
            19 => { d.next_x += 1; TopOp::WorldUnitSpawned(d.below(3) as u8, d.next_x) }
            17 => { d.next_x += 1; TopOp::EntCmdSyscall(d.next_x, d.byte() & 1 == 1) }
            12 => { let n = d.below(3) as u8; let f = d.f(); TopOp::RevokeNamed(n, f, d.byte() & 1 == 1) }
            13 => TopOp::SpawnRc(d.f()),
            14 => TopOp::DropRc(d.below(3) as u8),
            15 => { let k = d.below(4) as u8; TopOp::InsertSystem(k, d.f()) }
            16 => { d.next_x += 1; TopOp::CmdSyscallOnce(d.next_x) }
            0 => { let n = d.below(3) as u8; TopOp::Register(n, d.f()) }
            1 => TopOp::Spawn(d.f()),
            2 => TopOp::DespawnSpawned(d.below(4) as u8),
            3 => { d.next_x += 1; TopOp::CmdSyscall(d.next_x) }
            4 => TopOp::SpawnUnit,
            5 => { d.next_x += 1; TopOp::CmdSpawned(d.below(3) as u8, d.next_x) }
            _ => match d.spec(&mut Vec::new(), 0) { Some(s) => TopOp::Call(s), None => continue },
        };
        case.ops.push(op);
    }
    case
}

/// `prop`: C17 reports everything; as a side engine of C18 only a panic counts (calls on systems that are gone, or that
/// disappear during the call, must fail or finish cleanly).
pub struct SysEngine
{
    pub prop: &'static str,
}

impl SysEngine
{
    fn outcome(&self, case: &SysCase) -> CaseOutcome
    {
        let out = run_case(case);
        let mut o = CaseOutcome::default();
        o.violations = if self.prop == "C17" { out.violations } else { out.violations.into_iter().filter(|m| m.starts_with("panic: ")).collect() };
        o.nontrivial = out.keys_used >= 2 && out.classes.contains_key("C17:nested_or_command_issued");
        o.classes = out.classes.iter().map(|(k, v)| (k.clone(), *v)).collect();
        o.digest = json!({ "ops": case.ops.len(), "keys": out.keys_used });
        o
    }
}

impl Engine for SysEngine
{
    fn name(&self) -> &'static str { "sys17" }
    fn max_len(&self, tier: Tier) -> usize { match tier { Tier::Quick => 200, Tier::Thorough => 500 } }

    fn eval_bytes(&self, bytes: &[u8], tier: Tier) -> (Value, u64, CaseOutcome)
    {
        let case = decode(bytes, match tier { Tier::Quick => 12, Tier::Thorough => 30 });
        use std::hash::{Hash, Hasher};
        let mut h = std::collections::hash_map::DefaultHasher::new();
        case.hash(&mut h);
        let o = self.outcome(&case);
        (serde_json::to_value(&case).unwrap(), h.finish(), o)
    }

    fn eval_json(&self, case: &Value) -> Result<CaseOutcome, String>
    {
        let case: SysCase = serde_json::from_value(case.clone()).map_err(|e| format!("not a sys17 case: {e}"))?;
        Ok(self.outcome(&case))
    }

    fn shrink_json(&self, case: &Value) -> Value
    {
        let Ok(mut best) = serde_json::from_value::<SysCase>(case.clone()) else { return case.clone() };
        let fails = |c: &SysCase| !self.outcome(c).violations.is_empty();
        loop
        {
            let mut progress = false;
            let mut i = best.ops.len();
            while i > 0
            {
                i -= 1;
                let mut cand = best.clone();
                cand.ops.remove(i);
                if fails(&cand) { best = cand; progress = true; continue; }
                // strip nested / queued calls
                if let TopOp::Call(spec) = &best.ops[i]
                {
                    if !spec.nested.is_empty() || !spec.queued.is_empty()
                    {
                        for which in 0..2
                        {
                            let mut cand = best.clone();
                            if let TopOp::Call(s) = &mut cand.ops[i] { if which == 0 { s.nested.clear(); } else { s.queued.clear(); } }
                            if cand != best && fails(&cand) { best = cand; progress = true; }
                        }
                    }
                }
            }
            if !progress { break; }
        }
        serde_json::to_value(&best).unwrap()
    }
}
