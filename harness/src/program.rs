//! Programs: plain data, serde-serialisable (the replay file is the JSON of a `Program`), and the byte decoder
//! shared by the proptest driver and the libFuzzer targets.

use arbitrary::Unstructured;
use serde::{Deserialize, Serialize};

pub const N_COMP: u8 = 2;
pub const N_EVTY: u8 = 2;
pub const N_RES: u8 = 2;

#[derive(Debug, Clone, Copy, PartialEq, Eq, Hash, Serialize, Deserialize)]
pub enum Shape
{
    /// (Commands, AllReaders, Local)
    Full,
    /// (&mut World, &mut SystemState<AllReaders>, Local)
    Exclusive,
    /// (Commands, Local): no readers
    Minimal,
    /// (Commands, WrongReaders, Local): readers for types nobody sends
    Wrong,
    /// one `fn` item registered several times: (AllReaders, Local), no script
    NamedFn,
    /// like Full, but the system's only `Commands` is nested in a `ParamSet` (deferred work that
    /// `System::has_deferred` does not report in bevy 0.15)
    PsetCmds,
}

#[derive(Debug, Clone, Copy, PartialEq, Eq, Hash, Serialize, Deserialize)]
pub enum ResKind
{
    Unit,
    DropErr,
    WarnErr,
}

#[derive(Debug, Clone, Copy, PartialEq, Eq, Hash, Serialize, Deserialize)]
pub enum RegMode
{
    Persistent,
    Cleanup,
    Revokable,
}

#[derive(Debug, Clone, Copy, PartialEq, Eq, Hash, PartialOrd, Ord, Serialize, Deserialize)]
pub enum Key
{
    Broadcast(u8),
    AnyEntityEvent(u8),
    EntityEvent(u8, u8),
    Insertion(u8),
    Mutation(u8),
    Removal(u8),
    EntityInsertion(u8, u8),
    EntityMutation(u8, u8),
    EntityRemoval(u8, u8),
    ResourceMutation(u8),
    Despawn(u8),
}

impl Key
{
    /// The pool entity an entity-scoped key names.
    pub fn entity(&self) -> Option<u8>
    {
        match *self
        {
            Key::EntityEvent(e, _) | Key::EntityInsertion(e, _) | Key::EntityMutation(e, _) |
            Key::EntityRemoval(e, _) | Key::Despawn(e) => Some(e),
            _ => None,
        }
    }
}

#[derive(Debug, Clone, Copy, PartialEq, Eq, Hash, Serialize, Deserialize)]
pub enum SysRef
{
    Pool(u8),
    /// the (j mod n)-th fresh reactor created so far (falls back to a pool system if none exists yet)
    Fresh(u8),
}

#[derive(Debug, Clone, Copy, PartialEq, Eq, Hash, Serialize, Deserialize)]
pub enum Target
{
    Ent(u8),
    Sys(SysRef),
}

#[derive(Debug, Clone, Copy, PartialEq, Eq, Hash, Serialize, Deserialize)]
pub enum FreshApi
{
    On,
    OnPersistent,
    OnRevokable,
    Once,
}

#[derive(Debug, Clone, Copy, PartialEq, Eq, Hash, Serialize, Deserialize)]
pub enum RegTarget
{
    Pool(u8),
    Fresh{ template: u8, api: FreshApi },
}

#[derive(Debug, Clone, PartialEq, Eq, Hash, Serialize, Deserialize)]
pub enum Op
{
    RunSys(SysRef),
    SysEvent(SysRef, u8),
    Broadcast(u8),
    EntityEvent(u8, u8),
    Insert(u8, u8, u8),
    Mutate(u8, u8),
    TriggerMutation(u8, u8),
    Remove(u8, u8),
    ResMutate(u8),
    ResTrigger(u8),
    Despawn(Target, bool),
    Gc,
    Poll,
    Register{ target: RegTarget, bundle: Vec<Key> },
    Revoke(u8),
    Probe(bool),
    /// prepare the pool entity for auto-despawn and drop the signal at once: the next garbage collection despawns it
    /// (recursively); on a dead entity the collection must ignore it
    AutoDespawn(u8),
    /// 140 + 60 * `.1` manual runs of one system queued at once by a running system (one tree): trees far larger than anything the
    /// other ops build, for size thresholds
    RunMany(SysRef, u8),
    /// a system event (event type `.1`) sent to a POOL ENTITY used as a system command: it is alive but carries no
    /// system (or it is dead): nothing may run, the payload must be released, no residue
    SysEventToEntity(u8, u8),
}

#[derive(Debug, Clone, Copy, PartialEq, Eq, Hash, Serialize, Deserialize)]
pub enum Via
{
    Commands,
    Direct,
    /// the op is performed by a plain Bevy system during `app.update()`: slot 0 = `Update`, 1 = `Last` before the
    /// auto-despawn collection, 2 = between the collection and the removal/despawn poll, 3 = after the poll
    System(u8),
}

#[derive(Debug, Clone, PartialEq, Eq, Hash, Serialize, Deserialize)]
pub struct TopOp
{
    pub op: Op,
    pub via: Via,
    /// run the end-of-frame work (GC, poll, GC) after this op
    pub settle: bool,
    /// do the end-of-frame work by running the whole frame (`app.update()`: the plugin's own `Last` systems)
    #[serde(default)]
    pub update: bool,
}

#[derive(Debug, Clone, PartialEq, Eq, Hash, Serialize, Deserialize, Default)]
pub struct Script
{
    pub ops: Vec<Op>,
    /// return `Err` after queuing this many ops (only for systems with a `Result` return type)
    pub err_after: Option<u8>,
    pub take_twice: bool,
    /// exclusive systems only: run the dedicated probe system command directly (`SystemCommand::apply(world)`) in the
    /// middle of the body, before queuing anything
    #[serde(default)]
    pub mid_probe: bool,
}

#[derive(Debug, Clone, PartialEq, Eq, Hash, Serialize, Deserialize)]
pub struct SysDef
{
    pub shape: Shape,
    pub result: ResKind,
    /// how a pool system is registered by `Register{Pool}` ops
    pub reg_mode: RegMode,
    /// scripts[k] is what the (k+1)-th run does; later runs do nothing
    pub scripts: Vec<Script>,
}

#[derive(Debug, Clone, PartialEq, Eq, Hash, Serialize, Deserialize, Default)]
pub struct Setup
{
    pub n_entities: u8,
    /// (child, parent), child > parent
    pub hierarchy: Vec<(u8, u8)>,
    /// initial React<CA> / React<CB> per entity
    pub comps: Vec<(Option<u8>, Option<u8>)>,
    pub systems: Vec<SysDef>,
    pub templates: Vec<SysDef>,
}

#[derive(Debug, Clone, PartialEq, Eq, Hash, Serialize, Deserialize, Default)]
pub struct Program
{
    pub setup: Setup,
    pub top: Vec<TopOp>,
}

impl Program
{
    pub fn fingerprint(&self) -> u64
    {
        use std::hash::{Hash, Hasher};
        let mut h = std::collections::hash_map::DefaultHasher::new();
        self.hash(&mut h);
        h.finish()
    }

    pub fn n_ops(&self) -> usize
    {
        self.top.len()
            + self.setup.systems.iter().chain(self.setup.templates.iter())
                .map(|s| s.scripts.iter().map(|sc| sc.ops.len()).sum::<usize>()).sum::<usize>()
    }
}

//-------------------------------------------------------------------------------------------------------------------
// Profiles

pub const OPK_RUN: usize = 0;
pub const OPK_SYSEV: usize = 1;
pub const OPK_BCAST: usize = 2;
pub const OPK_EEV: usize = 3;
pub const OPK_INSERT: usize = 4;
pub const OPK_MUTATE: usize = 5;
pub const OPK_TRIGMUT: usize = 6;
pub const OPK_REMOVE: usize = 7;
pub const OPK_RESMUT: usize = 8;
pub const OPK_RESTRIG: usize = 9;
pub const OPK_DESPAWN_ENT: usize = 10;
pub const OPK_DESPAWN_SYS: usize = 11;
pub const OPK_GC: usize = 12;
pub const OPK_POLL: usize = 13;
pub const OPK_REG_POOL: usize = 14;
pub const OPK_REG_FRESH: usize = 15;
pub const OPK_REVOKE: usize = 16;
pub const OPK_PROBE: usize = 17;
pub const OPK_AUTODESPAWN: usize = 18;
pub const OPK_RUNMANY: usize = 19;
pub const OPK_SYSEV_ENT: usize = 20;
pub const N_OPK: usize = 21;

#[derive(Debug, Clone)]
pub struct Profile
{
    pub name: &'static str,
    pub max_entities: u8,
    pub max_systems: u8,
    pub max_templates: u8,
    pub max_scripts: u8,
    pub max_script_ops: u8,
    pub max_top: u8,
    pub max_init_regs: u8,
    pub max_bundle: u8,
    /// op kind weights at top level / inside scripts
    pub w_top: [u16; N_OPK],
    pub w_script: [u16; N_OPK],
    /// Full, Exclusive, Minimal, Wrong, NamedFn, PsetCmds
    pub w_shape: [u16; 6],
    /// Unit, DropErr, WarnErr
    pub w_result: [u16; 3],
    /// Persistent, Cleanup, Revokable
    pub w_regmode: [u16; 3],
    /// the 11 key kinds in declaration order
    pub w_key: [u16; 11],
    /// On, OnPersistent, OnRevokable, Once
    pub w_fresh_api: [u16; 4],
    /// probabilities out of 256
    pub p_err: u8,
    pub p_take_twice: u8,
    pub p_direct: u8,
    pub p_child: u8,
    pub p_comp: u8,
    /// probability that a system reference inside a script points at the script's own system (self recursion)
    pub p_self: u8,
    /// probability that the end-of-frame work is *not* run after a top-level op
    pub p_no_settle: u8,
    /// probability that a top-level op is performed by a plain Bevy system inside `app.update()`
    pub p_via_system: u8,
    /// probability that the end-of-frame work is done by `app.update()` instead of calling the public functions
    pub p_update: u8,
    /// probability that a bundle names one of its triggers twice
    pub p_dup_key: u8,
    /// concentrate events on few types/entities: number of event types and entities actually used by ops
    pub hot_entities: u8,
}

impl Profile
{
    pub fn general() -> Self
    {
        Profile{
            name: "general",
            max_entities: 4,
            max_systems: 6,
            max_templates: 3,
            max_scripts: 3,
            max_script_ops: 5,
            max_top: 12,
            max_init_regs: 6,
            max_bundle: 3,
            //        run sev bc  eev ins mut tmu rem rmu rtr dEn dSy gc pol rPo rFr rev prb aut many sEnt
            w_top: [8, 8, 10, 10, 8, 8, 4, 7, 5, 4, 5, 3, 2, 2, 8, 8, 6, 3, 2, 0, 1],
            w_script: [10, 10, 10, 10, 7, 7, 3, 6, 5, 3, 4, 3, 2, 2, 4, 4, 5, 6, 2, 1, 1],
            w_shape: [10, 5, 2, 1, 1, 2],
            w_result: [6, 3, 1],
            w_regmode: [5, 3, 3],
            w_key: [6, 4, 5, 4, 4, 4, 3, 4, 3, 4, 4],
            w_fresh_api: [3, 2, 4, 3],
            p_err: 40,
            p_take_twice: 30,
            p_direct: 50,
            p_child: 50,
            p_comp: 150,
            p_self: 60,
            p_no_settle: 90,
            p_via_system: 40,
            p_update: 100,
            p_dup_key: 16,
            hot_entities: 3,
        }
    }
}

impl Profile
{
    /// Per-property weights: make the property's non-trivial class the common case.
    pub fn for_prop(prop: &str) -> Self
    {
        let mut p = Profile::general();
        //                      run sev bc  eev ins mut tmu rem rmu rtr dEn dSy gc pol rPo rFr rev prb aut many sEnt
        match prop
        {
            "C01" =>
            {
                p.name = "dispatch";
                p.w_top = [2, 2, 10, 10, 8, 8, 4, 3, 6, 4, 3, 2, 1, 1, 12, 12, 5, 1, 1, 0, 1];
                p.w_script = [4, 3, 10, 10, 8, 8, 4, 3, 6, 3, 3, 2, 1, 1, 8, 8, 6, 1, 1, 1, 1];
                p.max_init_regs = 10;
                p.max_bundle = 4;
            }
            "C02" | "C09" | "C12" | "C03" | "C13" =>
            {
                p.name = "recursion";
                p.w_top = [10, 10, 10, 8, 4, 5, 2, 3, 4, 2, 2, 2, 1, 1, 8, 5, 2, 1, 2, 0, 1];
                p.w_script = [14, 16, 12, 10, 4, 6, 2, 3, 4, 2, 2, 3, 1, 1, 3, 2, 2, 2, 2, 1, 1];
                p.p_self = 110;
                p.max_scripts = 4;
                p.max_script_ops = 6;
                p.max_systems = 5;
                p.hot_entities = 2;
                if prop == "C13" { p.max_top = 18; p.w_shape = [8, 5, 3, 1, 3, 2]; }
                if prop == "C09"
                {
                    // polled reactions are part of the statement: despawn / removal keys, revokes and despawns
                    p.w_top[OPK_DESPAWN_ENT] = 8; p.w_top[OPK_REVOKE] = 5; p.w_top[OPK_REG_FRESH] = 8; p.w_top[OPK_REMOVE] = 5;
                    p.w_script[OPK_DESPAWN_ENT] = 6; p.w_script[OPK_REVOKE] = 4; p.w_script[OPK_REMOVE] = 4;
                    p.w_key = [6, 4, 5, 2, 4, 5, 2, 3, 4, 3, 10];
                    p.w_fresh_api = [2, 2, 6, 3];
                    p.hot_entities = 3;
                    p.p_no_settle = 150;
                }
                if prop == "C12"
                {
                    // removals and despawns are "reaction-triggering events" of the statement too: keep despawn / removal
                    // keys, revoked despawn reactors (tracker without reactors) and in-run despawns common
                    p.w_top[OPK_DESPAWN_ENT] = 5; p.w_top[OPK_REVOKE] = 6; p.w_top[OPK_REG_FRESH] = 8;
                    p.w_script[OPK_DESPAWN_ENT] = 6; p.w_script[OPK_REVOKE] = 3; p.w_script[OPK_REMOVE] = 4;
                    p.w_key = [6, 4, 5, 2, 3, 4, 2, 2, 4, 2, 12];
                    p.w_fresh_api = [2, 2, 6, 3];
                    p.hot_entities = 3;
                    p.w_script[OPK_AUTODESPAWN] = 5; p.w_top[OPK_AUTODESPAWN] = 3;
                }
                if prop == "C03" { p.w_script[OPK_REMOVE] = 6; p.w_script[OPK_DESPAWN_ENT] = 4; p.w_key = [6, 6, 6, 4, 5, 7, 3, 5, 5, 3, 5]; }
            }
            "C04" =>
            {
                p.name = "probes";
                p.w_top = [6, 8, 10, 10, 6, 6, 3, 4, 4, 2, 3, 2, 1, 1, 8, 6, 3, 6, 1, 0, 1];
                p.w_script = [8, 8, 8, 8, 5, 5, 2, 4, 3, 2, 3, 2, 1, 1, 3, 2, 3, 16, 1, 1, 1];
                p.w_shape = [8, 8, 2, 1, 1, 2];
                p.w_result = [5, 4, 2];
                p.p_err = 70;
                p.p_take_twice = 80;
            }
            "C05" =>
            {
                p.name = "payloads";
                p.w_top = [3, 10, 12, 12, 3, 3, 1, 2, 2, 1, 5, 6, 2, 1, 10, 8, 5, 1, 1, 0, 3];
                p.w_script = [5, 12, 12, 12, 3, 3, 1, 2, 2, 1, 5, 7, 2, 1, 4, 3, 6, 1, 1, 1, 3];
                p.w_key = [10, 8, 9, 2, 2, 2, 1, 1, 1, 2, 2];
                p.w_shape = [8, 4, 4, 3, 1, 2];
                p.p_self = 90;
            }
            "C06" =>
            {
                p.name = "revocation";
                p.w_top = [2, 2, 8, 8, 6, 6, 3, 3, 5, 3, 3, 1, 1, 1, 8, 14, 12, 1, 1, 0, 1];
                p.w_script = [4, 3, 10, 10, 7, 7, 3, 3, 5, 3, 2, 1, 1, 1, 3, 8, 16, 1, 1, 1, 1];
                p.w_regmode = [2, 1, 8];
                p.w_fresh_api = [1, 1, 8, 2];
                p.max_init_regs = 10;
                p.max_bundle = 4;
                p.hot_entities = 2;
            }
            "C07" | "C15" =>
            {
                p.name = "lifetime";
                p.w_top = [3, 2, 7, 7, 5, 5, 2, 5, 4, 2, 8, 3, 4, 3, 8, 14, 8, 1, 4, 0, 1];
                p.w_script = [5, 3, 8, 8, 5, 5, 2, 5, 4, 2, 7, 3, 4, 3, 3, 6, 8, 1, 3, 1, 1];
                p.w_regmode = [2, 5, 5];
                p.w_key = [4, 3, 5, 3, 3, 4, 4, 4, 4, 3, 8];
                p.max_bundle = 4;
                p.hot_entities = 2;
                if prop == "C15" { p.w_fresh_api = [1, 1, 2, 10]; p.p_dup_key = 40; }
            }
            "C08" =>
            {
                p.name = "removals";
                p.w_top = [3, 2, 4, 4, 10, 3, 1, 14, 2, 1, 10, 2, 2, 5, 8, 8, 3, 1, 8, 0, 1];
                p.w_script = [5, 3, 5, 5, 10, 3, 1, 14, 2, 1, 9, 2, 2, 5, 3, 3, 3, 1, 7, 1, 1];
                p.w_key = [2, 2, 2, 2, 2, 12, 2, 2, 10, 2, 10];
                p.p_no_settle = 150;
                p.p_via_system = 90;
                p.p_comp = 220;
                p.hot_entities = 3;
            }
            "C11" =>
            {
                p.name = "sequences";
                p.max_top = 18;
                p.w_top = [10, 10, 8, 8, 4, 4, 2, 3, 3, 2, 4, 6, 2, 1, 6, 6, 3, 1, 2, 0, 3];
                p.w_script = [12, 12, 8, 8, 4, 4, 2, 3, 3, 2, 4, 8, 2, 1, 3, 3, 3, 1, 2, 1, 3];
                p.p_self = 110;
                p.w_result = [4, 4, 2];
                p.p_err = 70;
            }
            "C18" =>
            {
                p.name = "stale";
                p.w_top = [8, 8, 6, 8, 7, 6, 4, 4, 2, 1, 12, 12, 2, 2, 8, 8, 6, 1, 4, 0, 3];
                p.w_script = [8, 8, 6, 8, 7, 6, 4, 4, 2, 1, 12, 12, 2, 2, 4, 4, 6, 1, 4, 1, 3];
                p.hot_entities = 2;
                p.max_entities = 3;
            }
            _ => {}
        }
        p
    }
}

//-------------------------------------------------------------------------------------------------------------------
// Decoder

struct Dec<'a, 'p>
{
    u: Unstructured<'a>,
    p: &'p Profile,
    n_entities: u8,
    n_systems: u8,
    n_templates: u8,
}

impl<'a, 'p> Dec<'a, 'p>
{
    fn byte(&mut self) -> u8
    {
        self.u.arbitrary::<u8>().unwrap_or(0)
    }

    /// Monotone index draw: smaller input byte => smaller index.
    fn below(&mut self, n: usize) -> usize
    {
        if n <= 1 { return 0; }
        let x = self.byte() as usize;
        (x * n) >> 8
    }

    fn chance(&mut self, p: u8) -> bool
    {
        // zero input => false
        let x = self.byte();
        x != 0 && (x as u16) <= p as u16
    }

    fn weighted(&mut self, w: &[u16]) -> usize
    {
        let total: u32 = w.iter().map(|x| *x as u32).sum();
        if total == 0 { return 0; }
        let x = self.u.arbitrary::<u16>().unwrap_or(0) as u32;
        let mut t = (x * total) >> 16;
        for (i, wi) in w.iter().enumerate()
        {
            if t < *wi as u32 { return i; }
            t -= *wi as u32;
        }
        w.len() - 1
    }

    fn entity(&mut self) -> u8
    {
        let hot = self.p.hot_entities.min(self.n_entities).max(1);
        // mostly hot entities, sometimes any
        if self.chance(200) { self.below(hot as usize) as u8 } else { self.below(self.n_entities as usize) as u8 }
    }

    fn comp(&mut self) -> u8 { self.below(N_COMP as usize) as u8 }
    fn evty(&mut self) -> u8 { self.below(N_EVTY as usize) as u8 }
    fn res(&mut self) -> u8 { self.below(N_RES as usize) as u8 }

    /// Resource named by a trigger key or an explicit trigger call: one in sixteen names `RC` (index 2), a reactive
    /// resource type that is never inserted - dispatch depends on the registrations, not on a value being present.
    /// One byte, monotone in the byte (as `res`).
    fn res_trig(&mut self) -> u8 { let x = self.byte(); if x >= 240 { 2 } else if x < 120 { 0 } else { 1 } }

    fn sysref(&mut self, own: Option<u8>) -> SysRef
    {
        if let Some(own) = own
        {
            if self.chance(self.p.p_self) { return SysRef::Pool(own); }
        }
        if self.chance(60) { SysRef::Fresh(self.below(4) as u8) } else { SysRef::Pool(self.below(self.n_systems as usize) as u8) }
    }

    fn key(&mut self) -> Key
    {
        match self.weighted(&self.p.w_key.clone())
        {
            0 => Key::Broadcast(self.evty()),
            1 => Key::AnyEntityEvent(self.evty()),
            2 => { let e = self.entity(); Key::EntityEvent(e, self.evty()) }
            3 => Key::Insertion(self.comp()),
            4 => Key::Mutation(self.comp()),
            5 => Key::Removal(self.comp()),
            6 => { let e = self.entity(); Key::EntityInsertion(e, self.comp()) }
            7 => { let e = self.entity(); Key::EntityMutation(e, self.comp()) }
            8 => { let e = self.entity(); Key::EntityRemoval(e, self.comp()) }
            9 => Key::ResourceMutation(self.res_trig()),
            _ => Key::Despawn(self.entity()),
        }
    }

    fn bundle(&mut self) -> Vec<Key>
    {
        // 0 keys is rare but legal (empty bundle)
        let n = if self.chance(12) { 0 } else { 1 + self.below(self.p.max_bundle as usize) };
        let mut keys: Vec<Key> = Vec::new();
        for _ in 0..n
        {
            let k = self.key();
            if !keys.contains(&k) { keys.push(k); }
        }
        // occasionally the same trigger twice in one bundle (two registrations of one reactor on one key)
        if !keys.is_empty() && keys.len() < 6 && self.chance(self.p.p_dup_key)
        {
            let i = self.below(keys.len());
            let k = keys[i];
            keys.push(k);
        }
        keys
    }

    fn op(&mut self, top: bool, own: Option<u8>, allow_fresh: bool) -> Op
    {
        let w = if top { self.p.w_top } else { self.p.w_script };
        let mut kind = self.weighted(&w);
        if kind == OPK_REG_FRESH && (!allow_fresh || self.n_templates == 0) { kind = OPK_REG_POOL; }
        match kind
        {
            OPK_RUN => Op::RunSys(self.sysref(own)),
            OPK_SYSEV => { let s = self.sysref(own); Op::SysEvent(s, self.evty()) }
            OPK_BCAST => Op::Broadcast(self.evty()),
            OPK_EEV => { let e = self.entity(); Op::EntityEvent(e, self.evty()) }
            OPK_INSERT => { let e = self.entity(); let c = self.comp(); Op::Insert(e, c, self.below(3) as u8) }
            OPK_MUTATE => { let e = self.entity(); Op::Mutate(e, self.comp()) }
            OPK_TRIGMUT => { let e = self.entity(); Op::TriggerMutation(e, self.comp()) }
            OPK_REMOVE => { let e = self.entity(); Op::Remove(e, self.comp()) }
            OPK_RESMUT => Op::ResMutate(self.res()),
            OPK_RESTRIG => Op::ResTrigger(self.res_trig()),
            OPK_DESPAWN_ENT => { let e = self.entity(); Op::Despawn(Target::Ent(e), self.chance(128)) }
            OPK_DESPAWN_SYS => { let s = self.sysref(own); Op::Despawn(Target::Sys(s), self.chance(128)) }
            OPK_GC => Op::Gc,
            OPK_POLL => Op::Poll,
            OPK_REG_POOL =>
            {
                let s = self.below(self.n_systems as usize) as u8;
                Op::Register{ target: RegTarget::Pool(s), bundle: self.bundle() }
            }
            OPK_REG_FRESH =>
            {
                let template = self.below(self.n_templates as usize) as u8;
                let api = match self.weighted(&self.p.w_fresh_api.clone())
                {
                    0 => FreshApi::On,
                    1 => FreshApi::OnPersistent,
                    2 => FreshApi::OnRevokable,
                    _ => FreshApi::Once,
                };
                Op::Register{ target: RegTarget::Fresh{ template, api }, bundle: self.bundle() }
            }
            OPK_REVOKE => Op::Revoke(self.below(6) as u8),
            OPK_AUTODESPAWN => Op::AutoDespawn(self.entity()),
            OPK_RUNMANY => { let s = self.sysref(own); Op::RunMany(s, self.below(5) as u8) }
            OPK_SYSEV_ENT => { let e = self.entity(); Op::SysEventToEntity(e, self.evty()) }
            _ => Op::Probe(self.chance(80)),
        }
    }

    fn sysdef(&mut self, own: Option<u8>, allow_fresh: bool) -> SysDef
    {
        let shape = match self.weighted(&self.p.w_shape.clone())
        {
            0 => Shape::Full,
            1 => Shape::Exclusive,
            2 => Shape::Minimal,
            3 => Shape::Wrong,
            4 => Shape::NamedFn,
            _ => Shape::PsetCmds,
        };
        let result = match self.weighted(&self.p.w_result.clone())
        {
            0 => ResKind::Unit,
            1 => ResKind::DropErr,
            _ => ResKind::WarnErr,
        };
        let reg_mode = match self.weighted(&self.p.w_regmode.clone())
        {
            0 => RegMode::Persistent,
            1 => RegMode::Cleanup,
            _ => RegMode::Revokable,
        };
        let mut scripts = Vec::new();
        if shape != Shape::NamedFn
        {
            let n_scripts = self.below(self.p.max_scripts as usize + 1);
            for _ in 0..n_scripts
            {
                let n_ops = self.below(self.p.max_script_ops as usize + 1);
                let mut ops = Vec::new();
                for _ in 0..n_ops { ops.push(self.op(false, own, allow_fresh)); }
                let err_after =
                    if result != ResKind::Unit && self.chance(self.p.p_err) { Some(self.below(n_ops + 1) as u8) } else { None };
                let take_twice = self.chance(self.p.p_take_twice);
                let mid_probe = shape == Shape::Exclusive && self.chance(90);
                scripts.push(Script{ ops, err_after, take_twice, mid_probe });
            }
        }
        SysDef{ shape, result, reg_mode, scripts }
    }
}

/// Decodes a byte string into a well-formed program. Exhausted / all-zero input gives the smallest program.
pub fn decode(bytes: &[u8], profile: &Profile) -> Program
{
    let mut d = Dec{ u: Unstructured::new(bytes), p: profile, n_entities: 1, n_systems: 1, n_templates: 0 };
    let mut setup = Setup::default();
    d.n_entities = 1 + d.below(profile.max_entities as usize) as u8;
    d.n_systems = 1 + d.below(profile.max_systems as usize) as u8;
    d.n_templates = d.below(profile.max_templates as usize + 1) as u8;
    setup.n_entities = d.n_entities;
    for e in 0..d.n_entities
    {
        let ca = if d.chance(profile.p_comp) { Some(d.below(3) as u8) } else { None };
        let cb = if d.chance(profile.p_comp) { Some(d.below(3) as u8) } else { None };
        setup.comps.push((ca, cb));
        if e > 0 && d.chance(profile.p_child)
        {
            let parent = d.below(e as usize) as u8;
            setup.hierarchy.push((e, parent));
        }
    }
    for s in 0..d.n_systems { let def = d.sysdef(Some(s), true); setup.systems.push(def); }
    for _ in 0..d.n_templates { let def = d.sysdef(None, false); setup.templates.push(def); }

    let mut top = Vec::new();
    let n_init = d.below(profile.max_init_regs as usize + 1);
    for _ in 0..n_init
    {
        let op = if d.n_templates > 0 && d.chance(128)
        {
            let template = d.below(d.n_templates as usize) as u8;
            let api = match d.weighted(&profile.w_fresh_api.clone())
            {
                0 => FreshApi::On,
                1 => FreshApi::OnPersistent,
                2 => FreshApi::OnRevokable,
                _ => FreshApi::Once,
            };
            Op::Register{ target: RegTarget::Fresh{ template, api }, bundle: d.bundle() }
        }
        else
        {
            let s = d.below(d.n_systems as usize) as u8;
            Op::Register{ target: RegTarget::Pool(s), bundle: d.bundle() }
        };
        top.push(TopOp{ op, via: Via::Commands, settle: false, update: false });
    }
    let n_top = d.below(profile.max_top as usize + 1);
    for _ in 0..n_top
    {
        let op = d.op(true, None, true);
        let via = if d.chance(profile.p_direct) { Via::Direct }
            else if d.chance(profile.p_via_system) { Via::System(d.below(4) as u8) }
            else { Via::Commands };
        let settle = !d.chance(profile.p_no_settle);
        let update = d.chance(profile.p_update);
        top.push(TopOp{ op, via, settle, update });
    }
    Program{ setup, top }
}
