pub mod program;
pub mod universe;
pub mod exec;
pub mod model;
pub mod shrink;
pub mod driver;
pub mod tree;
pub mod props;
