//! Engine `acc14` (property C14): reactive accessors trigger exactly as documented.
//!
//! A case is a list of steps; a step is ONE system run (a `syscall`ed system or a system command receiving the
//! step as a system event) that performs 1..n accessor calls of one accessor family plus world-level calls
//! (insert / explicit triggers / despawn). Type-wide and entity-scoped probe reactors log every reaction.
//! Oracle: a value/liveness model predicts, per step, the multiset of reactions, the stored values and the
//! return values of every call.

use arbitrary::Unstructured;
use bevy::prelude::*;
use bevy_cobweb::prelude::*;
use serde::{Deserialize, Serialize};
use serde_json::{json, Value};

use std::cell::RefCell;
use std::collections::BTreeMap;

use crate::driver::*;
use crate::universe::{CA, CB, RA, RB};

#[derive(Debug, Clone, Copy, PartialEq, Eq, Hash, Serialize, Deserialize)]
pub enum Family
{
    Direct,
    Reactive,
    ReactiveMut,
    Res,
}

#[derive(Debug, Clone, Copy, PartialEq, Eq, Hash, Serialize, Deserialize)]
pub enum Call
{
    // Query<&mut React<C>>
    Get(u8, u8),
    GetMut(u8, u8),
    GetNoreact(u8, u8),
    SetIfNeq(u8, u8, u8),
    // Reactive<C>
    RGet(u8, u8),
    RSingle(u8),
    // ReactiveMut<C>
    RmGet(u8, u8),
    RmGetMut(u8, u8),
    RmGetNoreact(u8, u8),
    RmSetIfNeq(u8, u8, u8),
    RmSingle(u8),
    RmSingleMut(u8),
    RmSingleNoreact(u8),
    RmSetSingle(u8, u8),
    // ReactRes / ReactResMut
    ResRead(u8),
    ResGetMut(u8),
    ResGetNoreact(u8, u8),
    ResSetIfNeq(u8, u8),
    // world level (any family)
    Insert(u8, u8, u8),
    TriggerMutation(u8, u8),
    TriggerRes(u8),
    WorldTriggerRes(u8),
    WorldResNoreact(u8, u8),
    Despawn(u8),
    /// every read-only / non-reacting world-level resource accessor in a row (must agree, must not trigger)
    WorldResReads(u8),
    /// register a revokable no-op reactor on a type-wide trigger (kind 0 insertion, 1 mutation, 2 removal, 3 resource
    /// mutation; second field: component / resource) and revoke it at once: the probe reactors must be unaffected
    RegRevoke(u8, u8),
    /// `React::get_mut` on a zero-sized reactive component (a marker like the ones in the crate's documentation): one
    /// mutation trigger, like for any other component
    ZstGetMut(u8),
}

#[derive(Debug, Clone, PartialEq, Eq, Hash, Serialize, Deserialize)]
pub struct Step
{
    pub family: Family,
    pub via_command: bool,
    pub calls: Vec<Call>,
}

#[derive(Debug, Clone, PartialEq, Eq, Hash, Serialize, Deserialize, Default)]
pub struct AccCase
{
    pub comps: Vec<(Option<u8>, Option<u8>)>,
    pub steps: Vec<Step>,
}

#[derive(Debug, Clone, Copy, PartialEq, Eq, Hash, PartialOrd, Ord)]
enum Obs
{
    Ins{ c: u8, e: u8, scoped: bool },
    Mut{ c: u8, e: u8, scoped: bool },
    Res{ r: u8 },
}

#[derive(Debug, Clone, PartialEq, Eq)]
enum Ret
{
    Read(Option<u8>),
    Set(Option<u8>),
    Skipped,
}

#[derive(Default)]
struct Log
{
    obs: Vec<Obs>,
    rets: Vec<(usize, Ret)>,
    pool: Vec<Entity>,
}

thread_local!
{
    static LOG: RefCell<Log> = RefCell::new(Log::default());
}

fn log_obs(o: Obs) { LOG.with(|l| l.borrow_mut().obs.push(o)); }
fn log_ret(i: usize, r: Ret) { LOG.with(|l| l.borrow_mut().rets.push((i, r))); }
fn pool_index(e: Entity) -> u8 { LOG.with(|l| l.borrow().pool.iter().position(|x| *x == e).map(|i| i as u8).unwrap_or(255)) }
fn pool_entity(i: u8) -> Entity { LOG.with(|l| { let l = l.borrow(); l.pool[i as usize % l.pool.len()] }) }

trait Val: ReactComponent + PartialEq
{
    fn new(v: u8) -> Self;
    fn v(&self) -> u8;
    fn set(&mut self, v: u8);
}
impl Val for CA { fn new(v: u8) -> Self { CA(v) } fn v(&self) -> u8 { self.0 } fn set(&mut self, v: u8) { self.0 = v; } }
/// A zero-sized reactive component.
#[derive(ReactComponent, PartialEq, Clone, Copy, Debug)]
pub struct CZ;
impl Val for CZ { fn new(_: u8) -> Self { CZ } fn v(&self) -> u8 { 0 } fn set(&mut self, _: u8) {} }

fn zst_get_mut(In(e): In<Entity>, mut c: Commands, mut q: Query<&mut React<CZ>>)
{
    if let Ok(mut r) = q.get_mut(e) { let _ = r.get_mut(&mut c); }
}

impl Val for CB { fn new(v: u8) -> Self { CB(v) } fn v(&self) -> u8 { self.0 } fn set(&mut self, v: u8) { self.0 = v; } }
trait RVal: ReactResource + PartialEq
{
    fn new(v: u8) -> Self;
    fn v(&self) -> u8;
    fn set(&mut self, v: u8);
}
impl RVal for RA { fn new(v: u8) -> Self { RA(v) } fn v(&self) -> u8 { self.0 } fn set(&mut self, v: u8) { self.0 = v; } }
impl RVal for RB { fn new(v: u8) -> Self { RB(v) } fn v(&self) -> u8 { self.0 } fn set(&mut self, v: u8) { self.0 = v; } }

/// New value of a reacting mutable access: the next value of the 3-value domain, tag cleared.
fn bump(v: u8) -> u8 { ((v & 0x0F) + 1) % 3 }
/// Equality as the components / resources define it (value nibble only; the tag nibble is ignored).
fn same(a: u8, b: u8) -> bool { a & 0x0F == b & 0x0F }

/// Read-only and explicitly non-reacting world-level accessors: they agree with each other and trigger nothing.
/// A read-only system parameter: `Deref` and Bevy's `DetectChanges` view of the resource (reads, never triggers).
fn res_ro_sys<R: RVal>(r: ReactRes<R>) -> u8
{
    use bevy::ecs::change_detection::DetectChanges;
    let _ = (r.is_added(), r.is_changed(), r.last_changed());
    let via_deref: &R = &*r;
    via_deref.v()
}

fn world_reads<R: RVal + Default>(w: &mut World)
{
    let v = w.react_resource::<R>().v();
    // initialising a resource that exists changes nothing (and triggers nothing)
    w.init_react_resource::<R>();
    w.commands().init_react_resource::<R>();
    w.flush();
    assert!(w.syscall((), res_ro_sys::<R>) == v, "ReactRes (Deref) disagrees with the world-level accessor");
    let ok = w.contains_react_resource::<R>()
        && w.get_react_resource::<R>().map(|r| r.v()) == Some(v)
        && w.get_react_resource_noreact::<R>().map(|r| r.v()) == Some(v)
        && w.get_react_resource_or_insert_with::<R>(|| R::new(9)).v() == v
        && w.react_resource::<R>().v() == v;
    let _ = (w.is_react_resource_added::<R>(), w.is_react_resource_changed::<R>());
    assert!(ok, "world-level read accessors of a reactive resource disagree");
}

/// World-level calls, available in every family (they only queue commands).
fn world_level(c: &mut Commands, call: Call) -> bool
{
    match call
    {
        Call::Insert(e, 0, v) => c.react().insert(pool_entity(e), CA(v)),
        Call::Insert(e, _, v) => c.react().insert(pool_entity(e), CB(v)),
        Call::TriggerMutation(e, 0) => { let e = pool_entity(e); c.queue(move |w: &mut World| React::<CA>::trigger_mutation(e, w)); }
        Call::TriggerMutation(e, _) => { let e = pool_entity(e); c.queue(move |w: &mut World| React::<CB>::trigger_mutation(e, w)); }
        Call::TriggerRes(0) => c.react().trigger_resource_mutation::<RA>(),
        Call::TriggerRes(_) => c.react().trigger_resource_mutation::<RB>(),
        Call::WorldTriggerRes(0) => c.queue(|w: &mut World| w.trigger_resource_mutation::<RA>()),
        Call::WorldTriggerRes(_) => c.queue(|w: &mut World| w.trigger_resource_mutation::<RB>()),
        // tag bit 5 set: the value is replaced through `Commands::insert_react_resource` (stores, triggers nothing)
        Call::WorldResNoreact(0, v) if v & 0x20 != 0 => c.insert_react_resource(RA(v)),
        Call::WorldResNoreact(_, v) if v & 0x20 != 0 => c.insert_react_resource(RB(v)),
        Call::WorldResNoreact(0, v) => c.queue(move |w: &mut World| w.react_resource_mut_noreact::<RA>().set(v)),
        Call::WorldResNoreact(_, v) => c.queue(move |w: &mut World| w.react_resource_mut_noreact::<RB>().set(v)),
        Call::Despawn(e) => { let e = pool_entity(e); c.queue(move |w: &mut World| { if let Ok(em) = w.get_entity_mut(e) { em.despawn(); } }); }
        Call::ZstGetMut(e) => c.syscall(pool_entity(e), zst_get_mut),
        Call::RegRevoke(kind, x) => c.queue(move |w: &mut World| {
            w.react(|rc| {
                // entity-scoped registrations on a pool entity: revoking one must leave the entity's other registrations
                // (the entity-scoped probes) alone
                let ent = pool_entity((kind / 2) % 4);
                let token = match (kind % 16, x % 2)
                {
                    (8 | 9, 0) => rc.on_revokable(entity_insertion::<CA>(ent), || {}),
                    (8 | 9, _) => rc.on_revokable(entity_insertion::<CB>(ent), || {}),
                    (10 | 11, 0) => rc.on_revokable(entity_mutation::<CA>(ent), || {}),
                    (10 | 11, _) => rc.on_revokable(entity_mutation::<CB>(ent), || {}),
                    (12 | 13, 0) => rc.on_revokable((entity_mutation::<CA>(ent), entity_insertion::<CB>(ent)), || {}),
                    (12 | 13, _) => rc.on_revokable((entity_removal::<CA>(ent), entity_event::<u8>(ent)), || {}),
                    (14 | 15, 0) => rc.on_revokable(entity_removal::<CB>(ent), || {}),
                    (14 | 15, _) => rc.on_revokable(despawn(ent), || {}),
                    // other registries keyed by the same types: revoking there must leave the probes of the accessors alone
                    (4, 0) => rc.on_revokable(broadcast::<RA>(), || {}),
                    (4, _) => rc.on_revokable(broadcast::<RB>(), || {}),
                    (5, 0) => rc.on_revokable(any_entity_event::<RA>(), || {}),
                    (5, _) => rc.on_revokable(any_entity_event::<RB>(), || {}),
                    (6, 0) => rc.on_revokable(broadcast::<CA>(), || {}),
                    (6, _) => rc.on_revokable(broadcast::<CB>(), || {}),
                    (7, 0) => rc.on_revokable(any_entity_event::<CA>(), || {}),
                    (7, _) => rc.on_revokable(any_entity_event::<CB>(), || {}),
                    (0, 0) => rc.on_revokable(insertion::<CA>(), || {}),
                    (0, _) => rc.on_revokable(insertion::<CB>(), || {}),
                    (1, 0) => rc.on_revokable(mutation::<CA>(), || {}),
                    (1, _) => rc.on_revokable(mutation::<CB>(), || {}),
                    (2, 0) => rc.on_revokable(removal::<CA>(), || {}),
                    (2, _) => rc.on_revokable(removal::<CB>(), || {}),
                    (_, 0) => rc.on_revokable(resource_mutation::<RA>(), || {}),
                    (_, _) => rc.on_revokable(resource_mutation::<RB>(), || {}),
                };
                // half of the time the token is revoked twice: the second revoke finds nothing and must change nothing
                let again = if (x / 2) % 2 == 0 { Some(token.clone()) } else { None };
                rc.revoke(token);
                if let Some(token) = again { rc.revoke(token); }
            });
        }),
        Call::WorldResReads(0) => c.queue(|w: &mut World| world_reads::<RA>(w)),
        Call::WorldResReads(_) => c.queue(|w: &mut World| world_reads::<RB>(w)),
        _ => return false,
    }
    true
}

fn direct_one<C: Val>(i: usize, call: Call, c: &mut Commands, q: &mut Query<&mut React<C>>)
{
    match call
    {
        Call::Get(e, _) => log_ret(i, Ret::Read(q.get(pool_entity(e)).ok().map(|r| {
            let via_deref: &C = &**r;
            assert!(via_deref.v() == r.get().v(), "React::deref disagrees with React::get");
            r.get().v()
        }))),
        Call::GetMut(e, _) =>
        {
            if let Ok(mut r) = q.get_mut(pool_entity(e)) { let x = r.get_mut(c); let n = bump(x.v()); x.set(n); }
        }
        Call::GetNoreact(e, _) =>
        {
            if let Ok(mut r) = q.get_mut(pool_entity(e)) { let x = r.get_noreact(); let n = bump(x.v()); x.set(n); }
        }
        Call::SetIfNeq(e, _, v) =>
        {
            match q.get_mut(pool_entity(e))
            {
                Ok(mut r) => log_ret(i, Ret::Set((*r).set_if_neq(c, C::new(v)).map(|o| o.v()))),
                Err(_) => log_ret(i, Ret::Skipped),
            }
        }
        _ => {}
    }
}

fn direct_body(calls: &[Call], c: &mut Commands, qa: &mut Query<&mut React<CA>>, qb: &mut Query<&mut React<CB>>)
{
    for (i, call) in calls.iter().enumerate()
    {
        if world_level(c, *call) { continue; }
        match *call
        {
            Call::Get(_, 0) | Call::GetMut(_, 0) | Call::GetNoreact(_, 0) | Call::SetIfNeq(_, 0, _) => direct_one(i, *call, c, qa),
            Call::Get(..) | Call::GetMut(..) | Call::GetNoreact(..) | Call::SetIfNeq(..) => direct_one(i, *call, c, qb),
            _ => {}
        }
    }
}

fn reactive_one<C: Val>(i: usize, call: Call, r: &Reactive<C>, n: usize)
{
    match call
    {
        Call::RGet(e, _) => log_ret(i, Ret::Read(r.get(pool_entity(e)).ok().map(|x| x.v()))),
        Call::RSingle(_) =>
        {
            if n == 1 { let (e, x) = r.single(); log_ret(i, Ret::Read(Some(x.v() + 10 * pool_index(e)))); } else { log_ret(i, Ret::Skipped); }
        }
        _ => {}
    }
}

fn reactive_body(calls: &[Call], c: &mut Commands, ra: &Reactive<CA>, rb: &Reactive<CB>, na: usize, nb: usize)
{
    for (i, call) in calls.iter().enumerate()
    {
        if world_level(c, *call) { continue; }
        match *call
        {
            Call::RGet(_, 0) | Call::RSingle(0) => reactive_one(i, *call, ra, na),
            Call::RGet(..) | Call::RSingle(_) => reactive_one(i, *call, rb, nb),
            _ => {}
        }
    }
}

fn reactive_mut_one<C: Val>(i: usize, call: Call, c: &mut Commands, r: &mut ReactiveMut<C>, n: usize)
{
    match call
    {
        Call::RmGet(e, _) => log_ret(i, Ret::Read(r.get(pool_entity(e)).ok().map(|x| x.v()))),
        Call::RmGetMut(e, _) => { if let Ok(x) = r.get_mut(c, pool_entity(e)) { let nv = bump(x.v()); x.set(nv); } }
        Call::RmGetNoreact(e, _) => { if let Ok(x) = r.get_noreact(pool_entity(e)) { let nv = bump(x.v()); x.set(nv); } }
        Call::RmSetIfNeq(e, _, v) => log_ret(i, Ret::Set(r.set_if_neq(c, pool_entity(e), C::new(v)).map(|o| o.v()))),
        Call::RmSingle(_) =>
        {
            if n == 1 { let (e, x) = r.single(); log_ret(i, Ret::Read(Some(x.v() + 10 * pool_index(e)))); } else { log_ret(i, Ret::Skipped); }
        }
        Call::RmSingleMut(_) => { if n == 1 { let (_, x) = r.single_mut(c); let nv = bump(x.v()); x.set(nv); } else { log_ret(i, Ret::Skipped); } }
        Call::RmSingleNoreact(_) => { if n == 1 { let (_, x) = r.single_noreact(); let nv = bump(x.v()); x.set(nv); } else { log_ret(i, Ret::Skipped); } }
        Call::RmSetSingle(_, v) =>
        {
            if n == 1 { let (_, o) = r.set_single_if_not_eq(c, C::new(v)); log_ret(i, Ret::Set(o.map(|o| o.v()))); } else { log_ret(i, Ret::Skipped); }
        }
        _ => {}
    }
}

fn reactive_mut_body(calls: &[Call], c: &mut Commands, ra: &mut ReactiveMut<CA>, rb: &mut ReactiveMut<CB>, na: usize, nb: usize)
{
    for (i, call) in calls.iter().enumerate()
    {
        if world_level(c, *call) { continue; }
        match *call
        {
            Call::RmGet(_, 0) | Call::RmGetMut(_, 0) | Call::RmGetNoreact(_, 0) | Call::RmSetIfNeq(_, 0, _)
            | Call::RmSingle(0) | Call::RmSingleMut(0) | Call::RmSingleNoreact(0) | Call::RmSetSingle(0, _) => reactive_mut_one(i, *call, c, ra, na),
            Call::RmGet(..) | Call::RmGetMut(..) | Call::RmGetNoreact(..) | Call::RmSetIfNeq(..)
            | Call::RmSingle(_) | Call::RmSingleMut(_) | Call::RmSingleNoreact(_) | Call::RmSetSingle(..) => reactive_mut_one(i, *call, c, rb, nb),
            _ => {}
        }
    }
}

fn res_one<R: RVal>(i: usize, call: Call, c: &mut Commands, r: &mut ReactResMut<R>)
{
    match call
    {
        Call::ResGetMut(_) => { let x = r.get_mut(c); let nv = bump(x.v()); x.set(nv); }
        Call::ResGetNoreact(_, v) => { r.get_noreact().set(v); }
        Call::ResSetIfNeq(_, v) => log_ret(i, Ret::Set(r.set_if_neq(c, R::new(v)).map(|o| o.v()))),
        Call::ResRead(_) =>
        {
            use bevy::ecs::change_detection::DetectChanges;
            let _ = (r.is_added(), r.is_changed(), r.last_changed());
            log_ret(i, Ret::Read(Some(r.v())))
        }
        _ => {}
    }
}

fn res_body(calls: &[Call], c: &mut Commands, ra: &mut ReactResMut<RA>, rb: &mut ReactResMut<RB>)
{
    for (i, call) in calls.iter().enumerate()
    {
        if world_level(c, *call) { continue; }
        match *call
        {
            Call::ResRead(0) | Call::ResGetMut(0) | Call::ResGetNoreact(0, _) | Call::ResSetIfNeq(0, _) => res_one(i, *call, c, ra),
            Call::ResRead(_) | Call::ResGetMut(_) | Call::ResGetNoreact(..) | Call::ResSetIfNeq(..) => res_one(i, *call, c, rb),
            _ => {}
        }
    }
}

// syscall'd systems
fn direct_sys(In(calls): In<Vec<Call>>, mut c: Commands, mut qa: Query<&mut React<CA>>, mut qb: Query<&mut React<CB>>)
{
    direct_body(&calls, &mut c, &mut qa, &mut qb);
}
fn reactive_sys(In(calls): In<Vec<Call>>, mut c: Commands, ra: Reactive<CA>, rb: Reactive<CB>, na: Query<(), With<React<CA>>>, nb: Query<(), With<React<CB>>>)
{
    reactive_body(&calls, &mut c, &ra, &rb, na.iter().count(), nb.iter().count());
}
fn reactive_mut_sys(In(calls): In<Vec<Call>>, mut c: Commands, mut ra: ReactiveMut<CA>, mut rb: ReactiveMut<CB>)
{
    let (na, nb) = (count_single(&ra), count_single(&rb));
    reactive_mut_body(&calls, &mut c, &mut ra, &mut rb, na, nb);
}
fn res_sys(In(calls): In<Vec<Call>>, mut c: Commands, mut ra: ReactResMut<RA>, mut rb: ReactResMut<RB>)
{
    res_body(&calls, &mut c, &mut ra, &mut rb);
}

/// Number of entities carrying the component, counted through the public read API of the pool.
fn count_single<C: Val>(r: &ReactiveMut<C>) -> usize
{
    let n = LOG.with(|l| l.borrow().pool.len());
    (0..n).filter(|i| r.get(pool_entity(*i as u8)).is_ok()).count()
}

// system-command variants (the step arrives as a system event)
fn direct_cmd(mut ev: SystemEvent<Vec<Call>>, mut c: Commands, mut qa: Query<&mut React<CA>>, mut qb: Query<&mut React<CB>>)
{
    let Ok(calls) = ev.take() else { return };
    direct_body(&calls, &mut c, &mut qa, &mut qb);
}
fn reactive_cmd(mut ev: SystemEvent<Vec<Call>>, mut c: Commands, ra: Reactive<CA>, rb: Reactive<CB>, na: Query<(), With<React<CA>>>, nb: Query<(), With<React<CB>>>)
{
    let Ok(calls) = ev.take() else { return };
    reactive_body(&calls, &mut c, &ra, &rb, na.iter().count(), nb.iter().count());
}
fn reactive_mut_cmd(mut ev: SystemEvent<Vec<Call>>, mut c: Commands, mut ra: ReactiveMut<CA>, mut rb: ReactiveMut<CB>)
{
    let Ok(calls) = ev.take() else { return };
    let (na, nb) = (count_single(&ra), count_single(&rb));
    reactive_mut_body(&calls, &mut c, &mut ra, &mut rb, na, nb);
}
fn res_cmd(mut ev: SystemEvent<Vec<Call>>, mut c: Commands, mut ra: ReactResMut<RA>, mut rb: ReactResMut<RB>)
{
    let Ok(calls) = ev.take() else { return };
    res_body(&calls, &mut c, &mut ra, &mut rb);
}

//-------------------------------------------------------------------------------------------------------------------
// Model

#[derive(Debug, Clone)]
struct Model
{
    alive: Vec<bool>,
    comp: Vec<[Option<u8>; 2]>,
    res: [u8; 2],
}

enum Queued
{
    Mutation(u8, u8),
    Insert(u8, u8, u8),
    Res(u8),
    ResSet(u8, u8),
    Despawn(u8),
    ZstMut(u8),
}

struct Expect
{
    required: Vec<Obs>,
    optional: Vec<Obs>,
    rets: Vec<(usize, Ret)>,
    cells: Vec<String>,
}

impl Model
{
    fn n(&self) -> u8 { self.alive.len() as u8 }

    fn single(&self, c: u8) -> Option<u8>
    {
        let v: Vec<u8> = (0..self.n()).filter(|e| self.alive[*e as usize] && self.comp[*e as usize][c as usize].is_some()).collect();
        if v.len() == 1 { Some(v[0]) } else { None }
    }

    fn state(&self, e: u8, c: u8) -> &'static str
    {
        if !self.alive[e as usize] { "dead" } else if self.comp[e as usize][c as usize].is_some() { "present" } else { "absent" }
    }

    /// Predicts one step: phase 1 = the system body (immediate effects), phase 2 = its queued commands in order.
    fn step(&mut self, step: &Step) -> Expect
    {
        let mut exp = Expect{ required: Vec::new(), optional: Vec::new(), rets: Vec::new(), cells: Vec::new() };
        let mut queue: Vec<Queued> = Vec::new();
        let n = self.n();
        for (i, call) in step.calls.iter().enumerate()
        {
            let name = format!("{:?}", call);
            let name = name.split('(').next().unwrap().to_string();
            match *call
            {
                Call::Get(e, c) | Call::RGet(e, c) | Call::RmGet(e, c) =>
                {
                    let e = e % n;
                    exp.cells.push(format!("{name}/{}", self.state(e, c)));
                    let v = if self.alive[e as usize] { self.comp[e as usize][c as usize] } else { None };
                    exp.rets.push((i, Ret::Read(v)));
                }
                Call::GetMut(e, c) | Call::RmGetMut(e, c) =>
                {
                    let e = e % n;
                    exp.cells.push(format!("{name}/{}", self.state(e, c)));
                    if self.alive[e as usize] { if let Some(v) = self.comp[e as usize][c as usize] {
                        self.comp[e as usize][c as usize] = Some(bump(v));
                        queue.push(Queued::Mutation(e, c));
                    } }
                }
                Call::GetNoreact(e, c) | Call::RmGetNoreact(e, c) =>
                {
                    let e = e % n;
                    exp.cells.push(format!("{name}/{}", self.state(e, c)));
                    if self.alive[e as usize] { if let Some(v) = self.comp[e as usize][c as usize] { self.comp[e as usize][c as usize] = Some(bump(v)); } }
                }
                Call::SetIfNeq(e, c, v) | Call::RmSetIfNeq(e, c, v) =>
                {
                    let e = e % n;
                    let cur = if self.alive[e as usize] { self.comp[e as usize][c as usize] } else { None };
                    match cur
                    {
                        Some(old) if !same(old, v) =>
                        {
                            exp.cells.push(format!("{name}/different"));
                            self.comp[e as usize][c as usize] = Some(v);
                            queue.push(Queued::Mutation(e, c));
                            exp.rets.push((i, Ret::Set(Some(old))));
                        }
                        Some(_) => { exp.cells.push(format!("{name}/equal")); exp.rets.push((i, Ret::Set(None))); }
                        None =>
                        {
                            exp.cells.push(format!("{name}/{}", self.state(e, c)));
                            exp.rets.push((i, if matches!(call, Call::SetIfNeq(..)) { Ret::Skipped } else { Ret::Set(None) }));
                        }
                    }
                }
                Call::RSingle(c) | Call::RmSingle(c) =>
                {
                    match self.single(c)
                    {
                        Some(e) => { exp.cells.push(format!("{name}/single")); exp.rets.push((i, Ret::Read(Some(self.comp[e as usize][c as usize].unwrap() + 10 * e)))); }
                        None => { exp.cells.push(format!("{name}/not_single")); exp.rets.push((i, Ret::Skipped)); }
                    }
                }
                Call::RmSingleMut(c) =>
                {
                    match self.single(c)
                    {
                        Some(e) =>
                        {
                            exp.cells.push(format!("{name}/single"));
                            let v = self.comp[e as usize][c as usize].unwrap();
                            self.comp[e as usize][c as usize] = Some(bump(v));
                            queue.push(Queued::Mutation(e, c));
                        }
                        None => { exp.cells.push(format!("{name}/not_single")); exp.rets.push((i, Ret::Skipped)); }
                    }
                }
                Call::RmSingleNoreact(c) =>
                {
                    match self.single(c)
                    {
                        Some(e) =>
                        {
                            exp.cells.push(format!("{name}/single"));
                            let v = self.comp[e as usize][c as usize].unwrap();
                            self.comp[e as usize][c as usize] = Some(bump(v));
                        }
                        None => { exp.cells.push(format!("{name}/not_single")); exp.rets.push((i, Ret::Skipped)); }
                    }
                }
                Call::RmSetSingle(c, v) =>
                {
                    match self.single(c)
                    {
                        Some(e) =>
                        {
                            let old = self.comp[e as usize][c as usize].unwrap();
                            if !same(old, v)
                            {
                                exp.cells.push(format!("{name}/different"));
                                self.comp[e as usize][c as usize] = Some(v);
                                queue.push(Queued::Mutation(e, c));
                                exp.rets.push((i, Ret::Set(Some(old))));
                            }
                            else { exp.cells.push(format!("{name}/equal")); exp.rets.push((i, Ret::Set(None))); }
                        }
                        None => { exp.cells.push(format!("{name}/not_single")); exp.rets.push((i, Ret::Skipped)); }
                    }
                }
                Call::ResRead(r) => { exp.cells.push(name); exp.rets.push((i, Ret::Read(Some(self.res[r as usize])))); }
                Call::ResGetMut(r) => { exp.cells.push(name); self.res[r as usize] = bump(self.res[r as usize]); queue.push(Queued::Res(r)); }
                Call::ResGetNoreact(r, v) => { exp.cells.push(name); self.res[r as usize] = v; }
                Call::ResSetIfNeq(r, v) =>
                {
                    let old = self.res[r as usize];
                    if !same(old, v)
                    {
                        exp.cells.push(format!("{name}/different"));
                        self.res[r as usize] = v;
                        queue.push(Queued::Res(r));
                        exp.rets.push((i, Ret::Set(Some(old))));
                    }
                    else { exp.cells.push(format!("{name}/equal")); exp.rets.push((i, Ret::Set(None))); }
                }
                Call::Insert(e, c, v) =>
                {
                    let e = e % n;
                    // `insert` returns early if the entity does not exist when it is called
                    if self.alive[e as usize] { queue.push(Queued::Insert(e, c, v)); } else { exp.cells.push("Insert/dead_at_call".into()); }
                }
                Call::TriggerMutation(e, c) => { queue.push(Queued::Mutation(e % n, c)); exp.cells.push(format!("{name}/{}", self.state(e % n, c))); }
                Call::TriggerRes(r) | Call::WorldTriggerRes(r) => { exp.cells.push(name); queue.push(Queued::Res(r)); }
                Call::WorldResNoreact(r, v) => { exp.cells.push(name); queue.push(Queued::ResSet(r, v)); }
                Call::Despawn(e) => { exp.cells.push(name); queue.push(Queued::Despawn(e % n)); }
                Call::WorldResReads(_) => { exp.cells.push(name); }
                Call::RegRevoke(..) => { exp.cells.push(name); }
                Call::ZstGetMut(e) => { exp.cells.push(name); queue.push(Queued::ZstMut(e % n)); }
            }
        }
        for q in queue
        {
            match q
            {
                Queued::Mutation(e, c) =>
                {
                    if self.alive[e as usize]
                    {
                        exp.required.push(Obs::Mut{ c, e, scoped: true });
                        exp.required.push(Obs::Mut{ c, e, scoped: false });
                    }
                    else
                    {
                        // the call still causes exactly one trigger: entity-scoped registrations died with the entity,
                        // type-wide mutation reactors run
                        exp.required.push(Obs::Mut{ c, e, scoped: false });
                        exp.cells.push("mutation_trigger/dead_at_apply".into());
                    }
                }
                Queued::Insert(e, c, v) =>
                {
                    if self.alive[e as usize]
                    {
                        exp.cells.push(format!("Insert/{}", self.state(e, c)));
                        self.comp[e as usize][c as usize] = Some(v);
                        exp.required.push(Obs::Ins{ c, e, scoped: true });
                        exp.required.push(Obs::Ins{ c, e, scoped: false });
                    }
                    else { exp.cells.push("Insert/dead_at_apply".into()); }
                }
                Queued::Res(r) => exp.required.push(Obs::Res{ r }),
                Queued::ResSet(r, v) => self.res[r as usize] = v,
                Queued::ZstMut(e) =>
                {
                    // the query finds the component only on a live entity
                    if self.alive[e as usize] { exp.required.push(Obs::Mut{ c: 2, e, scoped: false }); }
                }
                Queued::Despawn(e) =>
                {
                    self.alive[e as usize] = false;
                    self.comp[e as usize] = [None, None];
                }
            }
        }
        exp
    }
}

//-------------------------------------------------------------------------------------------------------------------
// Running a case

pub struct AccOutcome
{
    pub violations: Vec<String>,
    pub cells: BTreeMap<String, u32>,
    pub panicked: Option<String>,
}

fn probe_ins<C: Val, const I: u8>(ev: InsertionEvent<C>)
{
    if let Ok(e) = ev.get() { log_obs(Obs::Ins{ c: I, e: pool_index(e), scoped: false }); }
}

fn probe_mut<C: Val, const I: u8>(ev: MutationEvent<C>)
{
    if let Ok(e) = ev.get() { log_obs(Obs::Mut{ c: I, e: pool_index(e), scoped: false }); }
}

fn run_case_inner(case: &AccCase, out: &mut AccOutcome)
{
    let mut app = App::new();
    // in half of the cases the type-wide probes are App-level reactors added BEFORE the plugin (either order is supported)
    let plugin_last = case.comps.len() % 2 == 0;
    if plugin_last
    {
        app.add_reactor(insertion::<CA>(), probe_ins::<CA, 0>);
        app.add_reactor(insertion::<CB>(), probe_ins::<CB, 1>);
        app.add_reactor(mutation::<CA>(), probe_mut::<CA, 0>);
        app.add_reactor(mutation::<CB>(), probe_mut::<CB, 1>);
        app.add_reactor(mutation::<CZ>(), probe_mut::<CZ, 2>);
        app.add_reactor(resource_mutation::<RA>(), || log_obs(Obs::Res{ r: 0 }));
        app.add_reactor(resource_mutation::<RB>(), || log_obs(Obs::Res{ r: 1 }));
    }
    app.add_plugins(ReactPlugin);
    app.insert_react_resource(RA(0));
    app.insert_react_resource(RB(0));
    let world = app.world_mut();
    let n = case.comps.len().max(1);
    let mut pool = Vec::new();
    for _ in 0..n { pool.push(world.spawn_empty().id()); }
    LOG.with(|l| { let mut l = l.borrow_mut(); *l = Log::default(); l.pool = pool.clone(); });
    let mut model = Model{ alive: vec![true; n], comp: vec![[None, None]; n], res: [0, 0] };

    // probes first, so the initial inserts are observed too
    if !plugin_last
    {
        world.react(|rc| {
            rc.on_persistent(insertion::<CA>(), probe_ins::<CA, 0>);
            rc.on_persistent(insertion::<CB>(), probe_ins::<CB, 1>);
            rc.on_persistent(mutation::<CA>(), probe_mut::<CA, 0>);
            rc.on_persistent(mutation::<CB>(), probe_mut::<CB, 1>);
            rc.on_persistent(mutation::<CZ>(), probe_mut::<CZ, 2>);
            rc.on_persistent(resource_mutation::<RA>(), || log_obs(Obs::Res{ r: 0 }));
            rc.on_persistent(resource_mutation::<RB>(), || log_obs(Obs::Res{ r: 1 }));
        });
    }
    // every pool entity carries the zero-sized reactive component from the start
    for e in pool.iter().copied() { world.react(|rc| rc.insert(e, CZ)); }
    for e in pool.iter().copied()
    {
        world.react(|rc| {
            rc.on_persistent(entity_insertion::<CA>(e), |ev: InsertionEvent<CA>| { if let Ok(e) = ev.get() { log_obs(Obs::Ins{ c: 0, e: pool_index(e), scoped: true }); } });
            rc.on_persistent(entity_insertion::<CB>(e), |ev: InsertionEvent<CB>| { if let Ok(e) = ev.get() { log_obs(Obs::Ins{ c: 1, e: pool_index(e), scoped: true }); } });
            rc.on_persistent(entity_mutation::<CA>(e), |ev: MutationEvent<CA>| { if let Ok(e) = ev.get() { log_obs(Obs::Mut{ c: 0, e: pool_index(e), scoped: true }); } });
            rc.on_persistent(entity_mutation::<CB>(e), |ev: MutationEvent<CB>| { if let Ok(e) = ev.get() { log_obs(Obs::Mut{ c: 1, e: pool_index(e), scoped: true }); } });
        });
    }
    let cmd_direct = world.spawn_system_command(direct_cmd);
    let cmd_reactive = world.spawn_system_command(reactive_cmd);
    let cmd_reactive_mut = world.spawn_system_command(reactive_mut_cmd);
    let cmd_res = world.spawn_system_command(res_cmd);

    // initial components are step 0 (plain inserts through the public API)
    let mut steps: Vec<Step> = Vec::new();
    let mut init = Vec::new();
    for (e, (a, b)) in case.comps.iter().enumerate()
    {
        if let Some(v) = a { init.push(Call::Insert(e as u8, 0, *v % 3)); }
        if let Some(v) = b { init.push(Call::Insert(e as u8, 1, *v % 3)); }
    }
    steps.push(Step{ family: Family::Direct, via_command: false, calls: init });
    steps.extend(case.steps.iter().cloned());

    for (si, step) in steps.iter().enumerate()
    {
        LOG.with(|l| { let mut l = l.borrow_mut(); l.obs.clear(); l.rets.clear(); });
        let exp = model.step(step);
        let calls = step.calls.clone();
        match (step.family, step.via_command)
        {
            (Family::Direct, false) => world.syscall(calls, direct_sys),
            (Family::Reactive, false) => world.syscall(calls, reactive_sys),
            (Family::ReactiveMut, false) => world.syscall(calls, reactive_mut_sys),
            (Family::Res, false) => world.syscall(calls, res_sys),
            (Family::Direct, true) => world.send_system_event(cmd_direct, calls),
            (Family::Reactive, true) => world.send_system_event(cmd_reactive, calls),
            (Family::ReactiveMut, true) => world.send_system_event(cmd_reactive_mut, calls),
            (Family::Res, true) => world.send_system_event(cmd_res, calls),
        }
        for c in exp.cells.iter() { *out.cells.entry(c.clone()).or_default() += 1; }
        let (mut obs, mut rets) = LOG.with(|l| { let l = l.borrow(); (l.obs.clone(), l.rets.clone()) });
        // reactions: required <= observed <= required + optional (multisets)
        obs.sort();
        let mut need = exp.required.clone();
        need.sort();
        let mut rest = obs.clone();
        let mut missing = Vec::new();
        for r in need.iter()
        {
            match rest.iter().position(|o| o == r) { Some(p) => { rest.remove(p); } None => missing.push(*r) }
        }
        let mut opt = exp.optional.clone();
        let mut extra = Vec::new();
        for o in rest { match opt.iter().position(|x| *x == o) { Some(p) => { opt.remove(p); } None => extra.push(o) } }
        if !missing.is_empty() { out.violations.push(format!("step {si} {:?}: reactions {:?} did not happen (observed {:?})", step, missing, obs)); }
        if !extra.is_empty() { out.violations.push(format!("step {si} {:?}: unexpected reactions {:?} (expected {:?})", step, extra, need)); }
        // return values
        rets.sort_by_key(|r| r.0);
        let mut want = exp.rets.clone();
        want.sort_by_key(|r| r.0);
        if rets != want { out.violations.push(format!("step {si} {:?}: return values {:?}, expected {:?}", step, rets, want)); }
        // stored values and liveness
        for e in 0..n
        {
            let ent = pool[e];
            let alive = world.get_entity(ent).is_ok();
            if alive != model.alive[e] { out.violations.push(format!("step {si}: entity {e} alive={alive}, model {}", model.alive[e])); continue; }
            if !alive { continue; }
            let a = world.get::<React<CA>>(ent).map(|r| r.get().0);
            let b = world.get::<React<CB>>(ent).map(|r| r.get().0);
            if a != model.comp[e][0] || b != model.comp[e][1]
            {
                out.violations.push(format!("step {si} {:?}: entity {e} stores ({:?},{:?}), expected {:?}", step, a, b, model.comp[e]));
            }
        }
        let (ra, rb) = (world.react_resource::<RA>().0, world.react_resource::<RB>().0);
        if [ra, rb] != model.res { out.violations.push(format!("step {si} {:?}: resources store {:?}, expected {:?}", step, [ra, rb], model.res)); }
        if !out.violations.is_empty() { break; }
    }
}

pub fn run_case(case: &AccCase) -> AccOutcome
{
    let mut out = AccOutcome{ violations: Vec::new(), cells: BTreeMap::new(), panicked: None };
    let r = std::panic::catch_unwind(std::panic::AssertUnwindSafe(|| run_case_inner(case, &mut out)));
    if let Err(p) = r
    {
        let msg = if let Some(s) = p.downcast_ref::<&str>() { s.to_string() } else if let Some(s) = p.downcast_ref::<String>() { s.clone() } else { "panic".into() };
        out.violations.push(format!("panic: {msg}"));
        out.panicked = Some(msg);
    }
    out
}

//-------------------------------------------------------------------------------------------------------------------
// Generation

pub fn decode(bytes: &[u8], max_steps: usize, max_calls: usize) -> AccCase
{
    let mut u = Unstructured::new(bytes);
    let mut byte = |u: &mut Unstructured| -> u8 { u.arbitrary::<u8>().unwrap_or(0) };
    let below = |x: u8, n: usize| -> usize { if n <= 1 { 0 } else { (x as usize * n) >> 8 } };
    let n = 1 + below(byte(&mut u), 3);
    let mut case = AccCase::default();
    for _ in 0..n
    {
        let a = byte(&mut u);
        let b = byte(&mut u);
        case.comps.push((if a % 3 != 0 { Some(a % 3) } else { None }, if b % 4 == 1 { Some(b % 3) } else { None }));
    }
    let n_steps = below(byte(&mut u), max_steps + 1);
    for _ in 0..n_steps
    {
        let family = match below(byte(&mut u), 4) { 0 => Family::Direct, 1 => Family::ReactiveMut, 2 => Family::Res, _ => Family::Reactive };
        let via_command = byte(&mut u) % 3 == 1;
        let n_calls = 1 + below(byte(&mut u), max_calls);
        let mut calls = Vec::new();
        for _ in 0..n_calls
        {
            let k = byte(&mut u);
            let e = below(byte(&mut u), n) as u8;
            // component A mostly (single-entity accessors need exactly one owner)
            let c = if byte(&mut u) % 4 == 3 { 1 } else { 0 };
            // value nibble from the 3-value domain + a tag nibble that equality ignores
            let v = { let x = byte(&mut u); (x % 3) | (((x / 3) % 4) << 4) };
            let r = k % 2;
            let call = if k % 5 == 4
            {
                // world-level
                match below(byte(&mut u), 10)
                {
                    9 => Call::ZstGetMut(e),
                    7 => Call::WorldResReads(r),
                    8 => Call::RegRevoke((k / 5) % 16, r),
                    0 | 1 => Call::Insert(e, c, v),
                    2 => Call::TriggerMutation(e, c),
                    3 => Call::TriggerRes(r),
                    4 => Call::WorldTriggerRes(r),
                    5 => Call::WorldResNoreact(r, v),
                    _ => Call::Despawn(e),
                }
            }
            else
            {
                let x = byte(&mut u);
                match family
                {
                    Family::Direct => match below(x, 5) { 0 => Call::Get(e, c), 1 | 2 => Call::GetMut(e, c), 3 => Call::GetNoreact(e, c), _ => Call::SetIfNeq(e, c, v) },
                    Family::Reactive => match below(x, 3) { 0 | 1 => Call::RGet(e, c), _ => Call::RSingle(c) },
                    Family::ReactiveMut => match below(x, 9)
                    {
                        0 => Call::RmGet(e, c), 1 | 2 => Call::RmGetMut(e, c), 3 => Call::RmGetNoreact(e, c), 4 => Call::RmSetIfNeq(e, c, v),
                        5 => Call::RmSingle(c), 6 => Call::RmSingleMut(c), 7 => Call::RmSingleNoreact(c), _ => Call::RmSetSingle(c, v),
                    },
                    Family::Res => match below(x, 5) { 0 => Call::ResRead(r), 1 | 2 => Call::ResGetMut(r), 3 => Call::ResGetNoreact(r, v), _ => Call::ResSetIfNeq(r, v) },
                }
            };
            calls.push(call);
        }
        case.steps.push(Step{ family, via_command, calls });
    }
    case
}

fn reacting(cell: &str) -> bool
{
    let reacting_calls = ["GetMut", "RmGetMut", "RmSingleMut/single", "ResGetMut", "TriggerMutation", "TriggerRes", "WorldTriggerRes", "Insert/present", "Insert/absent"];
    reacting_calls.iter().any(|c| cell.starts_with(c)) || cell.ends_with("/different")
}

pub struct AccEngine;

impl AccEngine
{
    fn outcome(&self, case: &AccCase) -> CaseOutcome
    {
        let out = run_case(case);
        let mut o = CaseOutcome::default();
        o.violations = out.violations;
        let distinct = out.cells.len();
        let any_reacting = out.cells.keys().any(|c| reacting(c));
        let any_silent = out.cells.keys().any(|c| !reacting(c));
        o.nontrivial = distinct >= 3 && any_reacting && any_silent;
        o.classes = out.cells.iter().map(|(k, v)| (format!("C14:{k}"), *v)).collect();
        o.digest = json!({ "steps": case.steps.len(), "calls": case.steps.iter().map(|s| s.calls.len()).sum::<usize>(), "cells": distinct });
        o
    }
}

impl Engine for AccEngine
{
    fn name(&self) -> &'static str { "acc14" }
    fn max_len(&self, tier: Tier) -> usize { match tier { Tier::Quick => 160, Tier::Thorough => 400 } }

    fn eval_bytes(&self, bytes: &[u8], tier: Tier) -> (Value, u64, CaseOutcome)
    {
        let case = match tier { Tier::Quick => decode(bytes, 5, 4), Tier::Thorough => decode(bytes, 10, 6) };
        use std::hash::{Hash, Hasher};
        let mut h = std::collections::hash_map::DefaultHasher::new();
        case.hash(&mut h);
        let o = self.outcome(&case);
        (serde_json::to_value(&case).unwrap(), h.finish(), o)
    }

    fn eval_json(&self, case: &Value) -> Result<CaseOutcome, String>
    {
        let case: AccCase = serde_json::from_value(case.clone()).map_err(|e| format!("not an acc14 case: {e}"))?;
        Ok(self.outcome(&case))
    }

    fn shrink_json(&self, case: &Value) -> Value
    {
        let Ok(mut best) = serde_json::from_value::<AccCase>(case.clone()) else { return case.clone() };
        let fails = |c: &AccCase| !run_case(c).violations.is_empty();
        loop
        {
            let mut progress = false;
            let mut i = best.steps.len();
            while i > 0
            {
                i -= 1;
                let mut cand = best.clone();
                cand.steps.remove(i);
                if fails(&cand) { best = cand; progress = true; continue; }
                let mut j = best.steps[i].calls.len();
                while j > 0
                {
                    j -= 1;
                    if best.steps[i].calls.len() <= 1 { break; }
                    let mut cand = best.clone();
                    cand.steps[i].calls.remove(j);
                    if fails(&cand) { best = cand; progress = true; }
                }
                if best.steps[i].via_command
                {
                    let mut cand = best.clone();
                    cand.steps[i].via_command = false;
                    if fails(&cand) { best = cand; progress = true; }
                }
            }
            for e in 0..best.comps.len()
            {
                if best.comps[e] != (None, None)
                {
                    let mut cand = best.clone();
                    cand.comps[e] = (None, None);
                    if fails(&cand) { best = cand; progress = true; }
                }
            }
            if !progress { break; }
        }
        serde_json::to_value(&best).unwrap()
    }
}
