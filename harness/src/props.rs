//! The property table: which engine, profile, non-triviality rule and budget decides each property.

use crate::driver::*;
use crate::program::*;
use crate::tree::*;

fn big(mut p: Profile) -> Profile
{
    p.max_entities = 5;
    p.max_systems = 8;
    p.max_templates = 4;
    p.max_scripts = 4;
    p.max_script_ops = 7;
    p.max_top = 20;
    p.max_init_regs = 10;
    p.max_bundle = 4;
    p
}

pub fn tree_engine(prop: &'static str) -> Option<(TreeEngine, String)>
{
    let g = Profile::for_prop(prop);
    let (profile, nontrivial, rule): (Profile, &'static [&'static str], &str) = match prop
    {
        "C01" => (g, &["C01:multi_listener_with_decoys"], "a trigger applied while >= 2 registrations match it and >= 1 other live registration must not"),
        "C02" => (g, &["C02:postponed"], "a tree with >= 1 delivery postponed because its target was executing"),
        "C03" => (g, &["C03:started_with_other_deliveries_pending"], "a run started while >= 1 other delivery for the same system was applied and not yet run"),
        "C04" => (g, &["C04:probe_inside_reacting_subtree"], "a probe executed inside the subtree of a run that was reacting to an event"),
        "C05" => (g, &["C05:multi_reader_with_abort_or_postpone", "C05:zero_listeners"], "a payload with >= 2 scheduled readers of which >= 1 was aborted or postponed, or a payload nobody listens to"),
        "C06" => (g, &["C06:trigger_after_revoke_same_tree_with_neighbours", "C06:trigger_after_revoke_same_tree"], "a revoke applied inside a tree followed in the same tree by a trigger on a revoked key"),
        "C07" => (g, &["C07:lost_triggers_by_two_causes", "C07:dies_while_running", "C07:no_effective_trigger"], "a reference-counted reactor that loses triggers through >= 2 different causes, dies while running, or is registered without effective trigger"),
        "C08" => (g, &["C08:two_events_in_one_poll", "C08:remove_reinsert_remove"], ">= 2 removal/despawn events accumulated before one poll, or remove -> insert -> remove of one (entity, component)"),
        "C09" => (g, &["C09:depth3_with_postponed"], "a tree of depth >= 3 with >= 1 postponed delivery"),
        "C11" => (g, &["C11:tree_after_incident_tree"], "a tree that follows a tree containing an abort, postponement, discard or self-despawn"),
        "C12" => (g, &["C12:two_from_one_sender_with_postponed"], ">= 2 deliveries from one sender to one target with >= 1 of them postponed"),
        "C13" => (g, &["C13:three_runs_postponed_and_later_tree"], "a system with >= 3 runs of which >= 1 was postponed and >= 1 happened in a later tree"),
        "C15" => (g, &["C15:two_keys_fired", "C15:empty_or_dead_bundle"], "a one-off reactor for which >= 2 triggers fired, or with an empty / all-dead bundle"),
        "C18" => (g, &["C18:stale_op"], "an op applied whose named system / entity is dead at application"),
        _ => return None,
    };
    let thorough_profile = big(profile.clone());
    Some((
        TreeEngine{ prop, profile, thorough_profile, nontrivial, quick_len: 700, thorough_len: 1400 },
        format!("programs decoded from proptest byte strings (profile per property); non-trivial: {rule}; distinct = distinct program fingerprints"),
    ))
}

pub fn tree_assumptions() -> Vec<String>
{
    vec![
        "hook events of cargo feature `verif` report scheduling decisions faithfully".into(),
        "bevy 0.15 command queue semantics (commands applied in queue order, nested flush after each)".into(),
        "generators respect the soundness rules of DESIGN.md section 4 (no duplicate trigger per reactor, one non-persistent registration call per reactor)".into(),
        "behaviour left open by the property set is accepted either way (DESIGN.md section 4)".into(),
    ]
}

pub fn run(prop: &str, tier: Tier, seed: u64, replay: Option<&str>) -> i32
{
    if let Some(p) = ["C01","C02","C03","C04","C05","C06","C07","C08","C09","C11","C12","C13","C15","C18"].iter().find(|p| **p == prop)
    {
        let (engine, mut rule) = tree_engine(p).unwrap();
        // C01, C06, C07, C08, C13 and C18 speak about reactors in general, and world reactors are reactors: one case in eight
        // goes to the world-reactor engine, judged by the part of its oracle the property shares
        let side = crate::wr16::WrEngine{ prop: p };
        let side2 = crate::sys17::SysEngine{ prop: p };
        // C18 ("running or messaging a system" that is gone) also takes one case in eight from the syscall engine: spawned
        // systems despawned before or during a call; only a panic counts there
        let sides: Vec<&dyn Engine> = if *p == "C18" { vec![&side, &side2] } else { vec![&side] };
        let both = Composite{ main: &engine, sides, every: 8 };
        let with_side = ["C01", "C06", "C07", "C08", "C13", "C18"].contains(p);
        if with_side
        {
            rule.push_str("; one generated case in eight is a world-reactor history (engine wr16: add / partial and full remove / trigger / despawn over WorldReactors and EntityWorldReactors) judged by the part of its oracle this property shares (wr16::relevant_to) and not counted as non-trivial");
        }
        let spec = CheckSpec{
            fuzz_target: Some("tree"),
            prop: p,
            engine: if with_side { &both as &dyn Engine } else { &engine as &dyn Engine },
            quick_cases: 200_000,
            thorough_cases: 3_000_000,
            rule,
            assumptions: tree_assumptions(),
        };
        return run_check(&spec, tier, seed, replay);
    }
    if prop == "C14"
    {
        let engine = crate::acc14::AccEngine;
        let spec = CheckSpec{
            fuzz_target: Some("acc14"),
            prop: "C14",
            engine: &engine,
            quick_cases: 200_000,
            thorough_cases: 2_000_000,
            rule: "cases = lists of steps (one system run each, 1..n accessor calls of one accessor family plus world-level insert/trigger/despawn calls) decoded from proptest byte strings; every (call kind x entity/value state) cell is a class; non-trivial = >= 3 distinct cells with >= 1 reacting and >= 1 non-reacting call; distinct = distinct case hashes".into(),
            assumptions: vec![
                "probe reactors (type-wide and entity-scoped, persistent) observe every insertion / mutation / resource reaction".into(),
                "a mutation trigger whose entity died between the call and its application still runs the type-wide mutation reactors (exactly one trigger per call); entity-scoped ones died with the entity".into(),
            ],
        };
        return run_check(&spec, tier, seed, replay);
    }
    if prop == "C17"
    {
        let engine = crate::sys17::SysEngine{ prop: "C17" };
        let spec = CheckSpec{
            fuzz_target: Some("sys17"),
            prop: "C17",
            engine: &engine,
            quick_cases: 200_000,
            thorough_cases: 2_000_000,
            rule: "cases = histories of calls over three fn systems and the entry points syscall / named_syscall / register_named_system + named_syscall_direct / spawn_system + spawned_syscall / Commands::syscall / Commands::spawned_syscall / World::syscall_once / Commands::syscall_once / spawn_rc_system (+ signal drop and collection) / Commands::insert_system / IdMappedSystems::revoke, with nested calls and calls issued from queued commands, decoded from proptest byte strings; non-trivial = >= 2 keys used and >= 1 nested or command-issued call; distinct = distinct case hashes".into(),
            assumptions: vec![
                "re-entering a running syscall / named_syscall key is never generated (documented: state does not persist)".into(),
                "register_named_system replaces the stored system, so the key's state starts fresh".into(),
            ],
        };
        return run_check(&spec, tier, seed, replay);
    }
    if prop == "C10"
    {
        let engine = crate::rc10::RcEngine;
        let spec = CheckSpec{
            fuzz_target: None,
            prop: "C10",
            engine: &engine,
            quick_cases: 40_000,
            thorough_cases: 200_000,
            rule: "cases = histories of prepare / clone / drop / garbage-collect / app.update / manual-despawn / spawn-child / reparent / worker-thread-drop operations, injected faults (a clone dropped by the unwinding of a caught panic; worker threads that die holding clones) and clones stored in components of other entities (dropped in the middle of a collection pass) decoded from proptest byte strings; after every operation the live set must equal the reference-count model; non-trivial = >= 1 clone dropped out of creation order and >= 2 collections; distinct = distinct case hashes".into(),
            assumptions: vec![
                "at most one AutoDespawner::prepare per entity (two prepares are two independent counts)".into(),
                "thread interleavings are sampled by the OS scheduler, not enumerated; the checked invariants are schedule independent".into(),
                "a counted child dies with its collected ancestor (despawn_recursive)".into(),
            ],
        };
        return run_check(&spec, tier, seed, replay);
    }
    if prop == "C16"
    {
        let engine = crate::wr16::WrEngine{ prop: "C16" };
        let spec = CheckSpec{
            fuzz_target: Some("wr16"),
            prop: "C16",
            engine: &engine,
            quick_cases: 200_000,
            thorough_cases: 1_500_000,
            rule: "cases = histories of add / remove (full and partial) / run / trigger / despawn operations over two WorldReactors with dynamic bundles, one with starting triggers and three EntityWorldReactors with local data, decoded from proptest byte strings; non-trivial = >= 2 entities added to entity reactors and >= 1 partial removal; distinct = distinct case hashes".into(),
            assumptions: vec![
                "an entity is re-added to an entity world reactor only after all its triggers were removed; a world reactor never gets a key it already has (duplicate triggers are unspecified)".into(),
                "registration changes never happen while a removal / despawn waits for a poll (the harness settles first), so 'registered throughout' is unambiguous".into(),
                "entity events are only sent to live entities".into(),
            ],
        };
        return run_check(&spec, tier, seed, replay);
    }
    eprintln!("unknown property {prop}");
    2
}
