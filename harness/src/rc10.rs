//! Engine `rc10` (property C10): auto-despawn is an exact reference count.
//!
//! Histories of prepare / clone / drop / garbage-collect / manual-despawn / reparent operations over a handful of
//! entities (with children), plus a thread phase in which clones are dropped on worker threads while the main thread
//! collects. Oracle: a reference-count model; after every operation the set of live entities must equal the model's.

use arbitrary::Unstructured;
use bevy::prelude::*;
use bevy_cobweb::prelude::*;
use serde::{Deserialize, Serialize};
use serde_json::{json, Value};

use std::collections::BTreeMap;

use crate::driver::*;

#[derive(Debug, Clone, PartialEq, Eq, Hash, Serialize, Deserialize)]
pub enum RcOp
{
    Prepare(u8),
    Clone(u8),
    Drop(u8),
    Gc,
    /// `app.update()`: the plugin's own collection in `Last`
    AppUpdate,
    ManualDespawn(u8),
    SpawnChild(u8),
    Reparent(u8, u8),
    Unparent(u8),
    /// hand the listed signal slots to worker threads: threads[i] = [(slot, yields before dropping)]
    Threads(Vec<Vec<(u8, u8)>>),
    /// fault injection: the clone is dropped by the unwinding of a panic that is caught on the main thread
    PanicDrop(u8),
    /// fault injection: like `Threads`, but the threads named by the mask panic after dropping half of their handles;
    /// the rest is dropped by the unwinding of the dying thread
    ThreadsFault(Vec<Vec<(u8, u8)>>, u8),
    /// move the clone into a component of entity `.1`: it is dropped when that entity is despawned (by hand, as a
    /// descendant, or by a collection - in which case the drop happens in the middle of a collection pass)
    StoreOn(u8, u8),
    /// give the entity a component whose `on_remove` hook panics while the harness has armed it
    PlantFuse(u8),
    /// fault injection: a collection pass with the fuses armed; the first fused entity it despawns makes the pass
    /// unwind (caught by the harness). Whatever was waiting behind it must be taken by the next complete pass
    GcFault,
    /// like `GcFault`, but first plants the fuse on one of the entities that are waiting for collection (`.0` picks it)
    GcFaultOn(u8),
    /// spawn `.0` fresh entities, prepare each and drop the signal at once: several entities wait for one pass
    Burst(u8),
    /// `.0` x 40 fresh entities with exactly two clones each; two threads drop one clone of every entity in lock-step
    /// (barrier, same order), so the last two clones of each entity are dropped as simultaneously as the machine
    /// allows; one collection afterwards must take every one of them
    Race(u8),
    /// `App::setup_auto_despawn()` once more ("can be added to multiple plugins without conflict"): nothing changes
    SetupAgain,
    /// (cases with `ReactPlugin` only) the rest of the framework is aimed at the pool entity `.0` as if it were a system
    /// command: `.1` picks `SystemCommand::apply`, a queued `SystemCommand`, or a system event sent to it. The runner
    /// finds no system there; it collects garbage on the way (so this counts as a collection) and must leave the
    /// entity alone
    Poke(u8, u8),
    /// (cases with `ReactPlugin` only) a despawn reactor is registered on the pool entity: it gets a despawn tracker,
    /// and the reactor runs (through the runner, which collects) at the poll after its death
    Watch(u8),
    /// a fresh counted entity made by the framework's own constructors: `.0` picks `spawn_rc_system_command`,
    /// `spawn_rc_system_command_from` (both only with `ReactPlugin`), `spawn_rc_system` or `spawn_rc_system_from`; the
    /// returned signal is the entity's only clone
    SpawnRc(u8),
    /// `spawned_syscall` on a counted entity made by `spawn_rc_system(_from)`; with `.1` the system strips its own entity
    /// of every component it does not need (its own system component included) in the middle of the call: the call
    /// returns normally and the entity stays (it is counted and clones exist)
    CallSpawned(u8, bool),
    /// give the entity a component whose `Drop` collects garbage in a SECOND world living on the same thread (a sandbox
    /// owned by the entity, say): whenever the component goes - by hand, or in the middle of a collection pass of the
    /// first world - that collection must take what is waiting in the second world
    PlantDropGc(u8),
    /// the second world of the thread prepares an entity, drops its signal and collects: nothing of that concerns the
    /// first world, whose pending entities must still be taken by its own next collection
    SiblingGc,
}

thread_local!
{
    static ARMED: std::cell::Cell<bool> = std::cell::Cell::new(false);
}

/// Component whose `on_remove` hook panics once while armed.
struct Fuse;
impl Component for Fuse
{
    const STORAGE_TYPE: bevy::ecs::component::StorageType = bevy::ecs::component::StorageType::Table;
    fn register_component_hooks(hooks: &mut bevy::ecs::component::ComponentHooks)
    {
        hooks.on_remove(|_world, _entity, _id| {
            if ARMED.with(|a| a.replace(false)) { panic!("injected fault: a component hook panics during a collection pass"); }
        });
    }
}

/// Component holding signal clones (what `EntityReactors` does with reactor handles).
#[derive(Component, Default)]
struct Holder(Vec<AutoDespawnSignal>);

#[derive(Debug, Clone, PartialEq, Eq, Hash, Serialize, Deserialize, Default)]
pub struct RcCase
{
    pub n_entities: u8,
    pub ops: Vec<RcOp>,
    /// the app carries the whole `ReactPlugin` (which sets auto-despawn up itself) instead of `setup_auto_despawn` alone
    #[serde(default)]
    pub with_react: bool,
}

#[derive(Clone)]
struct Model
{
    alive: Vec<bool>,
    parent: Vec<Option<usize>>,
    prepared: Vec<bool>,
    count: Vec<u32>,
    /// reached zero, signal sent, not collected yet
    doomed: Vec<bool>,
    /// signal slot -> entity index (None: dropped)
    sigs: Vec<Option<usize>>,
    /// signal slots stored in a component of the entity
    held: Vec<Vec<usize>>,
    /// lost its last clone in the middle of a collection pass (a holder was collected): that pass or the next one may
    /// collect it - both are "the first collection after"; must be gone after the next pass
    either: Vec<bool>,
    fused: Vec<bool>,
    /// state not predictable any more (the unwinding pass stopped somewhere inside this entity's despawn, or a clone
    /// of its signal is held by such an entity): never checked again, never used again
    unknown: Vec<bool>,
}

impl Model
{
    fn descendants(&self, e: usize) -> Vec<usize>
    {
        let mut out = vec![e];
        let mut i = 0;
        while i < out.len()
        {
            let p = out[i];
            for c in 0..self.alive.len() { if self.alive[c] && self.parent[c] == Some(p) && !out.contains(&c) { out.push(c); } }
            i += 1;
        }
        out
    }

    /// Returns the entities that lost their last clone because a holder died.
    fn kill_recursive(&mut self, e: usize) -> Vec<usize>
    {
        let mut cascaded = Vec::new();
        if !self.alive[e] { return cascaded; }
        for d in self.descendants(e)
        {
            self.alive[d] = false;
            self.parent[d] = None;
            for slot in std::mem::take(&mut self.held[d])
            {
                if let Some(x) = self.sigs[slot].take()
                {
                    self.count[x] -= 1;
                    if self.count[x] == 0 { self.doomed[x] = true; cascaded.push(x); }
                }
            }
        }
        cascaded
    }

    /// One collection pass. Entities doomed before the pass die; entities doomed *during* the pass (cascade) become
    /// `either` (this pass or the next one may take them, and whatever they hold cascades the same way).
    fn gc(&mut self)
    {
        let before: Vec<usize> = (0..self.alive.len()).filter(|e| self.doomed[*e]).collect();
        // entities left undecided by the previous pass must be gone now; their death (and its cascade) may have
        // happened in either pass, so what they doom is again undecided
        let mut work: Vec<(usize, bool)> = before.iter().map(|e| (*e, false)).collect();
        for e in 0..self.alive.len() { self.either[e] = false; }
        while let Some((e, _)) = work.pop()
        {
            self.doomed[e] = false;
            for x in self.kill_recursive(e)
            {
                // x lost its last clone inside this pass
                self.either[x] = true;
            }
        }
    }

    /// Adopt what the real collection did with the undecided entities (either answer is acceptable for them).
    fn settle_either(&mut self, really_alive: &dyn Fn(usize) -> bool)
    {
        loop
        {
            let mut progress = false;
            for e in 0..self.alive.len()
            {
                if self.either[e] && self.alive[e] && self.doomed[e] && !really_alive(e)
                {
                    self.doomed[e] = false;
                    self.either[e] = false;
                    for x in self.kill_recursive(e) { self.either[x] = true; }
                    progress = true;
                }
            }
            if !progress { break; }
        }
        // still alive: stays doomed, must be taken by the next pass
        for e in 0..self.alive.len() { self.either[e] = false; }
    }

    /// Marks `e`, its live descendants and every entity a clone of whose signal they hold as unpredictable.
    fn taint(&mut self, e: usize)
    {
        if self.unknown[e] { return; }
        self.unknown[e] = true;
        self.doomed[e] = false;
        self.either[e] = false;
        let held: Vec<usize> = self.held[e].clone();
        for slot in held { if let Some(x) = self.sigs[slot] { self.taint(x); } }
        for c in 0..self.alive.len() { if self.parent[c] == Some(e) { self.taint(c); } }
    }

    /// Collection passes until nothing is left to collect (what must be gone at the latest).
    fn gc_full(&mut self)
    {
        while self.doomed.iter().any(|d| *d) { self.gc(); }
    }

    fn drop_sig(&mut self, slot: usize)
    {
        if let Some(e) = self.sigs[slot].take()
        {
            self.count[e] -= 1;
            if self.count[e] == 0 { self.doomed[e] = true; }
        }
    }
}

pub struct RcOutcome
{
    pub violations: Vec<String>,
    pub classes: BTreeMap<String, u32>,
}

thread_local!
{
    /// the second world of the thread, and how often a collection there failed to take a fully dropped entity
    static OTHER: std::cell::RefCell<Option<World>> = std::cell::RefCell::new(None);
    static OTHER_LEAKS: std::cell::Cell<u32> = std::cell::Cell::new(0);
}

#[derive(Component)]
struct DropGc;

impl Drop for DropGc
{
    fn drop(&mut self)
    {
        OTHER.with(|o| {
            let Ok(mut o) = o.try_borrow_mut() else { return };
            let Some(w) = o.as_mut() else { return };
            let x = w.spawn_empty().id();
            let sig = w.resource::<AutoDespawner>().prepare(x);
            drop(sig);
            garbage_collect_entities(w);
            if w.get_entity(x).is_ok() { OTHER_LEAKS.with(|l| l.set(l.get() + 1)); }
        });
    }
}

/// The system behind `spawn_rc_system(_from)`: optionally strips its own entity during the call.
fn strip_sys(In((me, strip)): In<(Entity, bool)>, world: &mut World) -> u8
{
    if strip { if let Ok(mut em) = world.get_entity_mut(me) { em.retain::<(Parent, Children, Holder, Fuse, DropGc)>(); } }
    7
}

fn hit0(out: &mut RcOutcome, l: &str) { *out.classes.entry(l.to_string()).or_default() += 1; }

fn run_inner(case: &RcCase, out: &mut RcOutcome)
{
    OTHER.with(|o| *o.borrow_mut() = None);
    OTHER_LEAKS.with(|l| l.set(0));
    let mut app = App::new();
    if case.with_react { app.add_plugins(ReactPlugin); hit0(out, "C10:with_react_plugin"); } else { app.setup_auto_despawn(); }
    let n = case.n_entities.max(1) as usize;
    let mut ents: Vec<Entity> = (0..n).map(|_| app.world_mut().spawn_empty().id()).collect();
    let mut m = Model{ alive: vec![true; n], parent: vec![None; n], prepared: vec![false; n], count: vec![0; n], doomed: vec![false; n], sigs: Vec::new(), held: vec![Vec::new(); n], either: vec![false; n], fused: vec![false; n], unknown: vec![false; n] };
    let mut sigs: Vec<Option<AutoDespawnSignal>> = Vec::new();
    // (entity index, stripped) of the counted entities that carry a spawned system
    let mut callable: Vec<(usize, bool)> = Vec::new();
    let mut drops_out_of_order = 0u32;
    let mut gcs = 0u32;
    let hit = |out: &mut RcOutcome, l: &str| { *out.classes.entry(l.to_string()).or_default() += 1; };

    for (i, op) in case.ops.iter().enumerate()
    {
        match op
        {
            RcOp::Prepare(e) =>
            {
                let e = *e as usize % ents.len();
                // one signal family per entity (two independent `prepare`s are two independent counts)
                if m.prepared[e] || !m.alive[e] || m.unknown[e] { continue; }
                let sig = app.world().resource::<AutoDespawner>().prepare(ents[e]);
                if sig.entity() != ents[e] { out.violations.push(format!("op {i}: signal names {:?}, prepared {:?}", sig.entity(), ents[e])); }
                sigs.push(Some(sig));
                m.sigs.push(Some(e));
                m.prepared[e] = true;
                m.count[e] = 1;
            }
            RcOp::Clone(s) =>
            {
                if sigs.is_empty() { continue; }
                let s = *s as usize % sigs.len();
                let Some(sig) = &sigs[s] else { continue };
                let c = sig.clone();
                let e = m.sigs[s].unwrap();
                sigs.push(Some(c));
                m.sigs.push(Some(e));
                m.count[e] += 1;
                hit(out, "C10:clone");
            }
            RcOp::Drop(s) =>
            {
                if sigs.is_empty() { continue; }
                let s = *s as usize % sigs.len();
                if sigs[s].is_none() { continue; }
                if sigs[s + 1..].iter().any(|x| x.is_some()) { drops_out_of_order += 1; }
                sigs[s] = None;
                m.drop_sig(s);
            }
            RcOp::Gc =>
            {
                garbage_collect_entities(app.world_mut());
                m.gc();
                m.settle_either(&|e| app.world().get_entity(ents[e]).is_ok());
                gcs += 1;
                // idempotent (unless a pass legitimately left cascaded entities to the next one)
                if !m.doomed.iter().any(|d| *d)
                {
                    let before: Vec<bool> = ents.iter().map(|e| app.world().get_entity(*e).is_ok()).collect();
                    garbage_collect_entities(app.world_mut());
                    let after: Vec<bool> = ents.iter().map(|e| app.world().get_entity(*e).is_ok()).collect();
                    if before != after { out.violations.push(format!("op {i}: a second garbage collection changed the world")); }
                }
            }
            RcOp::AppUpdate =>
            {
                app.update();
                m.gc();
                m.settle_either(&|e| app.world().get_entity(ents[e]).is_ok());
                gcs += 1;
                hit(out, "C10:collected_by_schedule");
            }
            RcOp::ManualDespawn(e) =>
            {
                let e = *e as usize % ents.len();
                if let Ok(em) = app.world_mut().get_entity_mut(ents[e]) { em.despawn_recursive(); }
                if m.doomed[e] || m.count[e] > 0 { hit(out, "C10:manual_despawn_of_counted_entity"); }
                let _ = m.kill_recursive(e);
            }
            RcOp::SpawnChild(p) =>
            {
                if ents.len() >= 16 { continue; }
                let p = *p as usize % ents.len();
                if !m.alive[p] || m.unknown[p] { continue; }
                let c = app.world_mut().spawn_empty().set_parent(ents[p]).id();
                ents.push(c);
                m.alive.push(true);
                m.parent.push(Some(p));
                m.prepared.push(false);
                m.count.push(0);
                m.doomed.push(false);
                m.held.push(Vec::new());
                m.either.push(false);
                m.fused.push(false);
                m.unknown.push(false);
                hit(out, "C10:child");
            }
            RcOp::Reparent(c, p) =>
            {
                let (c, p) = (*c as usize % ents.len(), *p as usize % ents.len());
                if c == p || !m.alive[c] || !m.alive[p] || m.unknown[c] || m.unknown[p] || m.descendants(c).contains(&p) { continue; }
                app.world_mut().entity_mut(ents[c]).set_parent(ents[p]);
                m.parent[c] = Some(p);
                hit(out, "C10:reparent");
            }
            RcOp::Unparent(c) =>
            {
                let c = *c as usize % ents.len();
                if !m.alive[c] || m.unknown[c] || m.parent[c].is_none() { continue; }
                app.world_mut().entity_mut(ents[c]).remove_parent();
                m.parent[c] = None;
            }
            RcOp::PanicDrop(s) =>
            {
                if sigs.is_empty() { continue; }
                let s = *s as usize % sigs.len();
                let Some(sig) = sigs[s].take() else { continue };
                if sigs[s + 1..].iter().any(|x| x.is_some()) { drops_out_of_order += 1; }
                let r = std::panic::catch_unwind(std::panic::AssertUnwindSafe(move || {
                    let _held = sig;
                    panic!("injected fault: the holder of a signal clone panics");
                }));
                if r.is_ok() { out.violations.push(format!("op {i}: injected panic did not unwind")); }
                m.drop_sig(s);
                hit(out, "C10:dropped_by_unwinding");
            }
            RcOp::PlantFuse(e) =>
            {
                let e = *e as usize % ents.len();
                if !m.alive[e] || m.unknown[e] || m.fused[e] { continue; }
                app.world_mut().entity_mut(ents[e]).insert(Fuse);
                m.fused[e] = true;
            }
            RcOp::Burst(k) if *k == 11 =>
            {
                // a big burst: 2100 short-lived counted entities lose their only clone before one collection, which must
                // take every one of them (queues, buffers and channels of any fixed size overflow here)
                let n = 2100usize;
                let fresh: Vec<Entity> = (0..n).map(|_| app.world_mut().spawn_empty().id()).collect();
                for e in fresh.iter() { let sig = app.world().resource::<AutoDespawner>().prepare(*e); drop(sig); }
                garbage_collect_entities(app.world_mut());
                gcs += 1;
                m.gc();
                m.settle_either(&|e| app.world().get_entity(ents[e]).is_ok());
                let leaked = fresh.iter().filter(|e| app.world().get_entity(**e).is_ok()).count();
                if leaked > 0 { out.violations.push(format!("op {i}: {leaked} of {n} entities that lost their only signal clone before one collection were not despawned by it")); }
                hit(out, "C10:burst_of_2100");
            }
            RcOp::Burst(k) =>
            {
                for _ in 0..(*k).clamp(2, 4)
                {
                    if ents.len() >= 16 { break; }
                    let e = app.world_mut().spawn_empty().id();
                    ents.push(e);
                    m.alive.push(true); m.parent.push(None); m.prepared.push(true); m.count.push(1); m.doomed.push(false);
                    m.held.push(Vec::new()); m.either.push(false); m.fused.push(false); m.unknown.push(false);
                    let sig = app.world().resource::<AutoDespawner>().prepare(e);
                    sigs.push(Some(sig));
                    m.sigs.push(Some(ents.len() - 1));
                    let slot = sigs.len() - 1;
                    sigs[slot] = None;
                    m.drop_sig(slot);
                }
                hit(out, "C10:burst");
            }
            RcOp::SetupAgain => { app.setup_auto_despawn(); hit(out, "C10:setup_again"); }
            RcOp::Poke(e, kind) =>
            {
                if !case.with_react { continue; }
                let e = *e as usize % ents.len();
                if m.unknown[e] { continue; }
                let target = ents[e];
                match kind % 3
                {
                    0 => SystemCommand(target).apply(app.world_mut()),
                    1 => { app.world_mut().commands().queue(SystemCommand(target)); app.world_mut().flush(); }
                    _ => { app.world_mut().commands().send_system_event(SystemCommand(target), 5u32); app.world_mut().flush(); }
                }
                // every runner call collects on entry
                m.gc();
                m.settle_either(&|e| app.world().get_entity(ents[e]).is_ok());
                gcs += 1;
                if m.alive[e] && m.count[e] > 0 { hit(out, "C10:framework_aimed_at_counted_entity"); }
            }
            RcOp::SpawnRc(kind) =>
            {
                if ents.len() >= 16 { continue; }
                let kind = if case.with_react { kind % 4 } else { 2 + kind % 2 };
                let sig = match kind
                {
                    0 => spawn_rc_system_command(app.world_mut(), || {}),
                    1 => spawn_rc_system_command_from(app.world_mut(), SystemCommandCallback::new(|| {})),
                    2 => spawn_rc_system(app.world_mut(), strip_sys),
                    _ => spawn_rc_system_from(app.world_mut(), CallbackSystem::new(strip_sys)),
                };
                if kind >= 2 { callable.push((ents.len(), false)); }
                ents.push(sig.entity());
                m.alive.push(true); m.parent.push(None); m.prepared.push(true); m.count.push(1); m.doomed.push(false);
                m.held.push(Vec::new()); m.either.push(false); m.fused.push(false); m.unknown.push(false);
                sigs.push(Some(sig));
                m.sigs.push(Some(ents.len() - 1));
                hit(out, "C10:counted_entity_made_by_spawn_rc");
            }
            RcOp::CallSpawned(pick, strip) =>
            {
                if callable.is_empty() { continue; }
                let k = *pick as usize % callable.len();
                let (e, stripped) = callable[k];
                if m.unknown[e] { continue; }
                let me = ents[e];
                let r = spawned_syscall::<In<(Entity, bool)>, u8>(app.world_mut(), SysId::new(me), (me, *strip));
                let want_ok = m.alive[e] && !stripped;
                if r.is_ok() != want_ok || (want_ok && r != Ok(7))
                {
                    out.violations.push(format!("op {i}: spawned_syscall on counted entity {e} (alive {}, stripped {stripped}) returned {:?}", m.alive[e], r));
                }
                if *strip && want_ok { callable[k].1 = true; hit(out, "C10:spawned_system_strips_its_own_entity"); }
            }
            RcOp::SiblingGc =>
            {
                OTHER.with(|o| { let mut o = o.borrow_mut(); if o.is_none() { let mut a = App::new(); a.setup_auto_despawn(); *o = Some(std::mem::take(a.world_mut())); } });
                // (the same work a `DropGc` component does, outside any pass)
                drop(DropGc);
                hit(out, "C10:second_world_collects_in_between");
            }
            RcOp::PlantDropGc(e) =>
            {
                let e = *e as usize % ents.len();
                if !m.alive[e] || m.unknown[e] { continue; }
                OTHER.with(|o| { let mut o = o.borrow_mut(); if o.is_none() { let mut a = App::new(); a.setup_auto_despawn(); *o = Some(std::mem::take(a.world_mut())); } });
                app.world_mut().entity_mut(ents[e]).insert(DropGc);
                hit(out, "C10:second_world_collected_from_a_drop");
            }
            RcOp::Watch(e) =>
            {
                if !case.with_react { continue; }
                let e = *e as usize % ents.len();
                if !m.alive[e] || m.unknown[e] { continue; }
                let target = ents[e];
                app.world_mut().react(|rc| { rc.on(despawn(target), || {}); });
                app.world_mut().flush();
                hit(out, "C10:despawn_reactor_on_counted_entity");
            }
            RcOp::Race(k) =>
            {
                let n = 40 * (*k as usize).clamp(1, 4);
                let fresh: Vec<Entity> = (0..n).map(|_| app.world_mut().spawn_empty().id()).collect();
                let (mut left, mut right) = (Vec::with_capacity(n), Vec::with_capacity(n));
                for e in fresh.iter()
                {
                    let sig = app.world().resource::<AutoDespawner>().prepare(*e);
                    right.push(sig.clone());
                    left.push(sig);
                }
                let barrier = std::sync::Barrier::new(2);
                std::thread::scope(|scope| {
                    for set in [left, right]
                    {
                        let barrier = &barrier;
                        scope.spawn(move || { barrier.wait(); for sig in set { drop(sig); } });
                    }
                });
                garbage_collect_entities(app.world_mut());
                gcs += 1;
                m.gc();
                m.settle_either(&|e| app.world().get_entity(ents[e]).is_ok());
                let leaked = fresh.iter().filter(|e| app.world().get_entity(**e).is_ok()).count();
                if leaked > 0
                {
                    out.violations.push(format!("op {i}: {leaked} of {n} entities whose two signal clones were dropped on two threads at the same time were not despawned by the next collection"));
                }
                hit(out, "C10:two_clones_dropped_concurrently");
            }
            RcOp::GcFault | RcOp::GcFaultOn(_) =>
            {
                if let RcOp::GcFaultOn(pick) = op
                {
                    let waiting: Vec<usize> = (0..ents.len()).filter(|e| m.alive[*e] && m.doomed[*e] && !m.unknown[*e] && !m.fused[*e]).collect();
                    if !waiting.is_empty()
                    {
                        let e = waiting[*pick as usize % waiting.len()];
                        app.world_mut().entity_mut(ents[e]).insert(Fuse);
                        m.fused[e] = true;
                    }
                }
                // what this pass could despawn (cascades included)
                let could_die: Vec<usize> = {
                    let mut fin = m.clone();
                    fin.gc_full();
                    (0..ents.len()).filter(|e| m.alive[*e] && !fin.alive[*e]).collect()
                };
                ARMED.with(|a| a.set(true));
                let r = std::panic::catch_unwind(std::panic::AssertUnwindSafe(|| garbage_collect_entities(app.world_mut())));
                ARMED.with(|a| a.set(false));
                gcs += 1;
                if r.is_ok()
                {
                    // no fused entity was reached: an ordinary pass
                    m.gc();
                    m.settle_either(&|e| app.world().get_entity(ents[e]).is_ok());
                }
                else
                {
                    hit(out, "C10:collection_pass_interrupted_by_panic");
                    // the pass unwound somewhere inside the despawn of a fused entity or of an ancestor of it that was
                    // being collected: those (and what they hold) are unpredictable from now on
                    let fused: Vec<usize> = could_die.iter().copied().filter(|e| m.fused[*e]).collect();
                    for f in fused
                    {
                        let mut chain = vec![f];
                        let mut x = f;
                        while let Some(p) = m.parent[x] { if could_die.contains(&p) { chain.push(p); x = p; } else { break; } }
                        for c in chain { m.taint(c); }
                    }
                    // everything else that was waiting was either collected before the fault or is still waiting; the
                    // next complete pass must take what is left
                    for e in 0..ents.len() { if m.doomed[e] && !m.unknown[e] { m.either[e] = true; } }
                    m.settle_either(&|e| app.world().get_entity(ents[e]).is_ok());
                    if (0..ents.len()).any(|e| m.doomed[e] && !m.unknown[e]) { hit(out, "C10:entities_left_waiting_behind_the_fault"); }
                }
            }
            RcOp::StoreOn(s, e) =>
            {
                if sigs.is_empty() { continue; }
                let (s, e) = (*s as usize % sigs.len(), *e as usize % ents.len());
                if !m.alive[e] || m.unknown[e] || sigs[s].is_none() { continue; }
                let sig = sigs[s].take().unwrap();
                let mut em = app.world_mut().entity_mut(ents[e]);
                if !em.contains::<Holder>() { em.insert(Holder::default()); }
                em.get_mut::<Holder>().unwrap().0.push(sig);
                m.held[e].push(s);
                hit(out, "C10:clone_held_by_entity");
            }
            RcOp::Threads(_) | RcOp::ThreadsFault(..) =>
            {
                let (plan, fault_mask) = match op { RcOp::Threads(p) => (p, 0u8), RcOp::ThreadsFault(p, k) => (p, *k), _ => unreachable!() };
                if sigs.is_empty() { continue; }
                // move the named handles to the threads
                let mut moved: Vec<Vec<(usize, AutoDespawnSignal, u8)>> = Vec::new();
                for t in plan.iter()
                {
                    let mut mine = Vec::new();
                    for (s, y) in t.iter()
                    {
                        let s = *s as usize % sigs.len();
                        if let Some(sig) = sigs[s].take() { mine.push((s, sig, *y)); }
                    }
                    moved.push(mine);
                }
                let moved_slots: Vec<usize> = moved.iter().flat_map(|t| t.iter().map(|x| x.0)).collect();
                if moved.iter().filter(|t| !t.is_empty()).count() >= 2 { hit(out, "C10:two_threads"); }
                if fault_mask != 0 && moved.iter().enumerate().any(|(t, mine)| !mine.is_empty() && (fault_mask >> (t % 8)) & 1 == 1) { hit(out, "C10:thread_dies_holding_clones"); }
                let handles: Vec<std::thread::JoinHandle<()>> = moved.into_iter().enumerate().map(|(t, mine)| {
                    let dies = (fault_mask >> (t % 8)) & 1 == 1;
                    std::thread::spawn(move || {
                        let die_at = mine.len() / 2;
                        let mut mine: std::collections::VecDeque<_> = mine.into();
                        let mut k = 0;
                        while let Some((_, sig, y)) = mine.pop_front()
                        {
                            for _ in 0..y { std::thread::yield_now(); }
                            if dies && k == die_at
                            {
                                // the rest (including `sig`) is dropped by the unwinding of this thread
                                let _held = sig;
                                panic!("injected fault: worker thread dies holding signal clones");
                            }
                            drop(sig);
                            k += 1;
                        }
                    })
                }).collect();
                // collect while the threads run: an entity with a retained handle must survive every collection
                // (whatever survives "all moved handles dropped + one collection" must survive every collection
                //  during the phase: collections in between can only remove a subset of that)
                let retained: Vec<usize> = {
                    let mut fin = m.clone();
                    for s in moved_slots.iter() { fin.drop_sig(*s); }
                    fin.gc_full();
                    (0..ents.len()).filter(|e| fin.alive[*e] && !m.unknown[*e]).collect()
                };
                let mut rounds = 0;
                loop
                {
                    let finished = handles.iter().all(|h| h.is_finished());
                    garbage_collect_entities(app.world_mut());
                    for e in retained.iter()
                    {
                        if m.alive[*e] && app.world().get_entity(ents[*e]).is_err()
                        {
                            out.violations.push(format!("op {i}: entity {e} was collected during the thread phase although neither it nor an ancestor lost its last signal clone"));
                        }
                    }
                    rounds += 1;
                    if finished || rounds > 1_000_000 { break; }
                    std::thread::yield_now();
                }
                for h in handles { let _ = h.join(); }
                // after joining, ONE collection removes every fully dropped entity
                for s in moved_slots { m.drop_sig(s); }
                garbage_collect_entities(app.world_mut());
                m.gc();
                m.settle_either(&|e| app.world().get_entity(ents[e]).is_ok());
                gcs += 1;
            }
        }
        let leaks = OTHER_LEAKS.with(|l| l.replace(0));
        if leaks > 0
        {
            out.violations.push(format!("op {i} {:?}: {leaks} collection(s) of a second world on the same thread did not despawn an entity whose every signal clone had been dropped (run from a component's Drop, possibly inside a collection pass of the first world)", op));
        }
        // after every operation: exactly the model's entities are alive
        for e in 0..ents.len()
        {
            let alive = app.world().get_entity(ents[e]).is_ok();
            if m.unknown[e] { continue; }
            if alive != m.alive[e]
            {
                let why = if alive { "still exists although every clone of its signal was dropped before the last collection (or an ancestor was collected)" }
                    else if m.count[e] > 0 { "was despawned while clones of its signal exist" } else { "was despawned unexpectedly" };
                out.violations.push(format!("op {i} {:?}: entity {e} {why}", op));
            }
        }
        if !out.violations.is_empty() { break; }
    }
    if drops_out_of_order >= 1 && gcs >= 2 { hit(out, "C10:out_of_order_drops_and_two_collections"); }
    drop(sigs);
}

pub fn run_case(case: &RcCase) -> RcOutcome
{
    let mut out = RcOutcome{ violations: Vec::new(), classes: BTreeMap::new() };
    let r = std::panic::catch_unwind(std::panic::AssertUnwindSafe(|| run_inner(case, &mut out)));
    if let Err(p) = r
    {
        let msg = if let Some(s) = p.downcast_ref::<&str>() { s.to_string() } else if let Some(s) = p.downcast_ref::<String>() { s.clone() } else { "panic".into() };
        out.violations.push(format!("panic: {msg}"));
    }
    out
}

pub fn decode(bytes: &[u8], max_ops: usize, threads: bool) -> RcCase
{
    let mut u = Unstructured::new(bytes);
    let mut byte = |u: &mut Unstructured| -> u8 { u.arbitrary::<u8>().unwrap_or(0) };
    let below = |x: u8, n: usize| -> usize { if n <= 1 { 0 } else { (x as usize * n) >> 8 } };
    let mut case = RcCase::default();
    let first = byte(&mut u);
    case.n_entities = 1 + below(first, 5) as u8;
    case.with_react = first % 2 == 1;
    let n_ops = below(byte(&mut u), max_ops + 1);
    for _ in 0..n_ops
    {
        let k = below(byte(&mut u), 48);
        let a = byte(&mut u) % 12;
        let b = byte(&mut u) % 12;
        let op = match k
        {
            0 | 1 | 2 => RcOp::Prepare(a),
            3 | 4 | 5 => RcOp::Clone(a),
            6 | 7 | 8 | 9 => RcOp::Drop(a),
            10 | 11 | 12 => RcOp::Gc,
            13 => RcOp::AppUpdate,
            14 => RcOp::ManualDespawn(a),
            15 | 16 => RcOp::SpawnChild(a),
            17 => RcOp::Reparent(a, b),
            18 => RcOp::Unparent(a),
            20 => RcOp::PanicDrop(a),
            27 | 28 => RcOp::PlantFuse(a),
            29 => RcOp::GcFault,
            30 | 31 => RcOp::GcFaultOn(a),
            32 | 33 => RcOp::Burst(b),
            34 | 35 => if threads { RcOp::Race(1 + b % 4) } else { RcOp::Gc },
            36 | 37 => RcOp::SetupAgain,
            38 | 39 => RcOp::Poke(a, b),
            40 => RcOp::Watch(a),
            41 | 42 => RcOp::SpawnRc(b),
            43 | 44 => RcOp::CallSpawned(a, b % 2 == 1),
            45 => RcOp::PlantDropGc(a),
            46 | 47 => RcOp::SiblingGc,
            21 | 22 | 23 => RcOp::StoreOn(a, b),
            _ =>
            {
                if !threads { RcOp::Gc } else
                {
                    let fault = k == 24 || k == 26;
                    let n_threads = 2 + below(byte(&mut u), 4);
                    let mut plan = Vec::new();
                    for _ in 0..n_threads
                    {
                        let n = below(byte(&mut u), 4);
                        let mut t = Vec::new();
                        for _ in 0..n { let s = byte(&mut u) % 16; let y = byte(&mut u) % 8; t.push((s, y)); }
                        plan.push(t);
                    }
                    if fault { RcOp::ThreadsFault(plan, 1 + byte(&mut u) % 15) } else { RcOp::Threads(plan) }
                }
            }
        };
        case.ops.push(op);
    }
    case
}

pub struct RcEngine;

impl RcEngine
{
    fn outcome(&self, case: &RcCase) -> CaseOutcome
    {
        let out = run_case(case);
        let mut o = CaseOutcome::default();
        o.violations = out.violations;
        o.nontrivial = out.classes.contains_key("C10:out_of_order_drops_and_two_collections");
        o.classes = out.classes.iter().map(|(k, v)| (k.clone(), *v)).collect();
        o.digest = json!({ "ops": case.ops.len() });
        o
    }
}

impl Engine for RcEngine
{
    fn name(&self) -> &'static str { "rc10" }
    fn max_len(&self, tier: Tier) -> usize { match tier { Tier::Quick => 150, Tier::Thorough => 400 } }

    fn eval_bytes(&self, bytes: &[u8], tier: Tier) -> (Value, u64, CaseOutcome)
    {
        let case = decode(bytes, match tier { Tier::Quick => 30, Tier::Thorough => 80 }, true);
        use std::hash::{Hash, Hasher};
        let mut h = std::collections::hash_map::DefaultHasher::new();
        case.hash(&mut h);
        let o = self.outcome(&case);
        (serde_json::to_value(&case).unwrap(), h.finish(), o)
    }

    fn eval_json(&self, case: &Value) -> Result<CaseOutcome, String>
    {
        let case: RcCase = serde_json::from_value(case.clone()).map_err(|e| format!("not an rc10 case: {e}"))?;
        Ok(self.outcome(&case))
    }

    fn shrink_json(&self, case: &Value) -> Value
    {
        let Ok(mut best) = serde_json::from_value::<RcCase>(case.clone()) else { return case.clone() };
        let fails = |c: &RcCase| !run_case(c).violations.is_empty();
        loop
        {
            let mut progress = false;
            let mut i = best.ops.len();
            while i > 0
            {
                i -= 1;
                let mut cand = best.clone();
                cand.ops.remove(i);
                if fails(&cand) { best = cand; progress = true; }
            }
            if !progress { break; }
        }
        serde_json::to_value(&best).unwrap()
    }
}
