//! The closed universe all generated programs live in: component / event / resource types, the case-local
//! (thread-local) dynamic tables and the case trace.

use bevy::prelude::*;
use bevy_cobweb::prelude::*;
use serde::{Deserialize, Serialize};

use std::cell::RefCell;
use std::collections::{HashMap, HashSet};
use std::sync::Arc;

use crate::program::*;

//-------------------------------------------------------------------------------------------------------------------
// Reactive components and resources

// Equality is deliberately NOT structural: only the low nibble (the "value") is compared, the high nibble is a tag
// that equal values may differ in. `set_if_neq` must therefore leave the stored (tagged) value alone when the new
// one compares equal - storing it anyway would be an un-reacted mutation that the accessor engine can see.
#[derive(Debug, Clone)]
pub struct CA(pub u8);
impl ReactComponent for CA {}
#[derive(Debug, Clone)]
pub struct CB(pub u8);
impl ReactComponent for CB {}

#[derive(Debug, Clone, Default)]
pub struct RA(pub u8);
impl ReactResource for RA {}
#[derive(Debug, Clone, Default)]
pub struct RB(pub u8);

macro_rules! value_eq { ($($t:ty),*) => { $(
    impl PartialEq for $t { fn eq(&self, other: &Self) -> bool { self.0 & 0x0F == other.0 & 0x0F } }
    impl Eq for $t {}
)* } }
value_eq!(CA, CB, RA, RB);
impl ReactResource for RB {}
/// A reactive resource type that no engine ever inserts: triggers and registrations for it must behave like any other.
#[derive(Debug, Clone, Default)]
pub struct RC(pub u8);
impl ReactResource for RC {}

//-------------------------------------------------------------------------------------------------------------------
// Payloads: not Clone, Drop is logged.

pub struct Pay<const T: u8>
{
    pub id: u32,
    /// some payloads own an auto-despawn signal of a pool entity: releasing the payload dooms that entity (dropped
    /// after the `PayloadDrop` event has been logged)
    pub sig: Option<AutoDespawnSignal>,
}

impl<const T: u8> Pay<T>
{
    pub fn new(id: u32) -> Self { Self{ id, sig: None } }

    /// Payload `id` of the running case, with the signal the case table assigns to it (if any).
    pub fn of_case(id: u32) -> Self
    {
        let sig = with_case(|c| match (c.carry.get(&id), c.despawner.as_ref()) { (Some(e), Some(d)) => Some(d.prepare(*e)), _ => None });
        Self{ id, sig }
    }
}

impl<const T: u8> Drop for Pay<T>
{
    fn drop(&mut self)
    {
        push(Ev::PayloadDrop(self.id));
    }
}

/// Dropped when the closure (system state) that captured it is dropped.
pub struct Canary
{
    pub sys: SysUid,
}

impl Drop for Canary
{
    fn drop(&mut self)
    {
        push(Ev::CanaryDrop(self.sys));
    }
}

//-------------------------------------------------------------------------------------------------------------------
// References

pub type SysUid = u16;
pub type RunId = u32;

/// A world entity as seen by the oracles.
#[derive(Debug, Clone, Copy, PartialEq, Eq, Hash, PartialOrd, Ord, Serialize, Deserialize)]
pub enum EntRef
{
    Pool(u8),
    Sys(SysUid),
    Other(u64),
}

/// One thing a reader returned.
#[derive(Debug, Clone, Copy, PartialEq, Eq, Hash, PartialOrd, Ord, Serialize, Deserialize)]
pub enum Item
{
    SysEv(u8, u32),
    Bcast(u8, u32),
    EEv(u8, EntRef, u32),
    Ins(u8, EntRef),
    Mut(u8, EntRef),
    Rem(u8, EntRef),
    Desp(EntRef),
    /// A reader for a type nobody ever sends returned something.
    Wrong(u8),
}

pub type Readings = Vec<Item>;

/// Liveness / component facts read from the real world at the instant a marker is applied.
#[derive(Debug, Clone, PartialEq, Eq, Serialize, Deserialize, Default)]
pub struct Facts
{
    /// per pool entity: (alive, has React<CA>, has React<CB>)
    pub ent: Vec<(bool, bool, bool)>,
    /// per known system uid: 0 = entity gone, 1 = alive with callback, 2 = alive, callback taken (running),
    /// 3 = alive without storage, 4 = entity not known yet
    pub sys: Vec<u8>,
    /// number of entities in the world
    pub n_entities: u32,
}

#[derive(Debug, Clone, Copy, PartialEq, Eq, Hash, Serialize, Deserialize)]
pub enum Sender
{
    Top(u32),
    Run(RunId),
    /// applied directly (not queued) from inside the body of an exclusive run
    Mid(RunId),
}

/// What an op resolved to when it was queued.
#[derive(Debug, Clone, PartialEq, Eq, Serialize, Deserialize)]
pub enum Resolved
{
    None,
    /// target system of RunSys / SysEvent / Despawn(system)
    Sys(SysUid),
    /// payload id of an event op (and the target system for system events)
    Payload{ id: u32, sys: Option<SysUid>, #[serde(default)] carries: Option<u8> },
    /// a registration: reactor uid, mode, keys actually passed (after the duplicate rule), token index
    Register{ sys: SysUid, mode: RegMode, api: RegApi, keys: Vec<Key>, token: Option<u16> },
    /// a revoke: token index
    Revoke{ token: u16 },
    /// the op was skipped by a generator soundness rule (nothing was queued except the markers)
    Skipped(SkipReason),
}

#[derive(Debug, Clone, Copy, PartialEq, Eq, Hash, Serialize, Deserialize)]
pub enum SkipReason
{
    NoToken,
    DuplicateKey,
    SecondNonPersistentWith,
    FreshInFresh,
    Budget,
}

#[derive(Debug, Clone, Copy, PartialEq, Eq, Hash, Serialize, Deserialize)]
pub enum RegApi
{
    With,
    On,
    OnPersistent,
    OnRevokable,
    Once,
}

#[derive(Debug, Clone, Copy, PartialEq, Eq, Serialize, Deserialize)]
pub enum HookKind
{
    Manual,
    SystemEvent,
    Resource,
    Insertion(u8),
    Mutation(u8),
    Removal(u8),
    EntityEvent,
    Broadcast,
    Despawn,
    /// an entity reaction on a component type outside the universe
    Unknown,
}

#[derive(Debug, Clone, Copy, PartialEq, Eq, Serialize, Deserialize)]
pub enum AbortReason
{
    EntityGone,
    StorageGone,
    RootBusy,
}

#[derive(Debug, Clone, PartialEq, Eq, Serialize, Deserialize)]
pub enum Hook
{
    Apply{ id: u64, kind: HookKind, sys: EntRef, source: Option<EntRef> },
    Enter{ id: u64, sys: EntRef, replay: bool, depth: u32 },
    Abort{ id: u64, reason: AbortReason },
    Postpone{ id: u64 },
    Start{ id: u64 },
    Finish{ id: u64, reinserted: bool },
    Exit{ id: u64 },
    Discard{ id: u64, sys: EntRef },
    GcBegin,
    GcEnd,
    Gc{ entity: EntRef, existed: bool },
    PollBegin,
    PollEnd,
}

/// Framework bookkeeping at a quiescent point (from the `verif` hooks).
#[derive(Debug, Clone, PartialEq, Eq, Serialize, Deserialize, Default)]
pub struct Snap
{
    pub counter: u32,
    pub buffered: u32,
    pub prepared: [u32; 4],
    pub reacting: [bool; 4],
    pub storages_without_callback: u32,
    pub data_entities: u32,
    pub cache_handles: u32,
    pub entity_handles: u32,
    /// per known system uid: number of trigger registrations naming it
    pub regs_of: Vec<u32>,
}

#[derive(Debug, Clone, PartialEq, Eq, Serialize, Deserialize)]
pub enum Ev
{
    /// a system became known: uid, definition, how it was created
    SysCreated{ uid: SysUid, shape: Shape, result: ResKind, pool: Option<u8>, template: Option<u8> },
    /// (child, parent) pairs among the pool entities (fixed for the whole case)
    Hierarchy(Vec<(u8, u8)>),
    TopBegin(u32),
    TopEnd(u32),
    SettleBegin(u32),
    SettleEnd(u32),
    Op{ sender: Sender, idx: u16, op: Op, resolved: Resolved, facts: Facts },
    OpDone{ sender: Sender, idx: u16, facts: Facts },
    RunBegin{ run: RunId, sys: SysUid, local_n: u32, captured_n: u32, readings: Option<Readings>, second_take: Option<bool> },
    BodyEnd{ run: RunId, readings: Option<Readings>, err: bool },
    FlushEnd{ run: RunId },
    /// a named-fn system ran (it cannot know which registration it is; attributed by the preceding hook Start)
    AnonRun{ local_n: u32, readings: Readings },
    /// change detection as seen by the run that just began: `ReactRes<RA>` / `ReactRes<RB>` `.is_changed()`
    ChangeSample{ changed: [bool; 2], resample: bool },
    /// exclusive systems only: `World::is_react_resource_changed` for RA / RB, i.e. change detection relative to the
    /// exclusive system's own last run (which Bevy records after the system's flush)
    WorldChangeSample{ changed: [bool; 2] },
    Probe{ readings: Readings, exclusive: bool },
    PayloadDrop(u32),
    CanaryDrop(SysUid),
    /// the harness made an exclusive system (closure) for this uid and is about to hand it to the framework
    ExclSystemMade(SysUid),
    /// the parameter state of some exclusive harness system was constructed (`FromWorld` of a `Local` probe)
    ExclStateCreated,
    Quiescent{ phase: u8, snap: Snap, facts: Facts },
    Hook(Hook),
    Panic(String),
}

//-------------------------------------------------------------------------------------------------------------------
// Case-local dynamic state

pub struct SysDyn
{
    pub entity: Option<Entity>,
    pub def: Arc<SysDef>,
    pub runs: u32,
    pub pool: Option<u8>,
    /// a non-persistent `with` call has already been made for this (pool) system
    pub nonpersistent_done: bool,
}

pub struct TokenRec
{
    pub token: RevokeToken,
    pub sys: SysUid,
    pub keys: Vec<Key>,
}

#[derive(Default)]
pub struct Case
{
    pub trace: Vec<Ev>,
    pub pool: Vec<Entity>,
    pub ent_index: HashMap<Entity, EntRef>,
    pub systems: Vec<SysDyn>,
    pub fresh: Vec<SysUid>,
    pub tokens: Vec<TokenRec>,
    pub templates: Vec<Arc<SysDef>>,
    pub issued: HashSet<(SysUid, Key)>,
    pub next_run: RunId,
    pub next_payload: u32,
    pub steps: u32,
    pub budget: u32,
    pub over_budget: bool,
    pub skipped: HashMap<SkipReason, u32>,
    pub active: bool,
    /// payload id -> pool entity whose auto-despawn signal the payload owns
    pub carry: HashMap<u32, Entity>,
    pub despawner: Option<AutoDespawner>,
    /// dedicated system command that exclusive bodies run directly (`SystemCommand::apply(world)`) mid-body
    pub mid_probe: Option<(SysUid, Entity)>,
}

thread_local!
{
    pub static CASE: RefCell<Case> = RefCell::new(Case::default());
}

pub fn with_case<R>(f: impl FnOnce(&mut Case) -> R) -> R
{
    CASE.with(|c| f(&mut c.borrow_mut()))
}

pub fn push(ev: Ev)
{
    CASE.with(|c| {
        // Drops may run while the case is being torn down or borrowed; never panic from here.
        if let Ok(mut c) = c.try_borrow_mut() {
            if c.active { c.trace.push(ev); }
        }
    });
}

pub fn ent_ref(case: &Case, e: Entity) -> EntRef
{
    case.ent_index.get(&e).copied().unwrap_or(EntRef::Other(e.to_bits()))
}

pub fn map_entity(e: Entity) -> EntRef
{
    with_case(|c| ent_ref(c, e))
}

impl Case
{
    pub fn new_payload(&mut self) -> u32
    {
        let id = self.next_payload;
        self.next_payload += 1;
        id
    }

    pub fn bind_system_entity(&mut self, uid: SysUid, entity: Entity)
    {
        self.systems[uid as usize].entity = Some(entity);
        self.ent_index.insert(entity, EntRef::Sys(uid));
    }

    pub fn add_system(&mut self, def: Arc<SysDef>, entity: Option<Entity>, pool: Option<u8>, template: Option<u8>) -> SysUid
    {
        let uid = self.systems.len() as SysUid;
        self.trace.push(Ev::SysCreated{ uid, shape: def.shape, result: def.result, pool, template });
        self.systems.push(SysDyn{ entity, def, runs: 0, pool, nonpersistent_done: false });
        if let Some(e) = entity { self.ent_index.insert(e, EntRef::Sys(uid)); }
        uid
    }
}

/// Reads the facts from the world.
pub fn take_facts(world: &mut World) -> Facts
{
    let (pool, sys_entities): (Vec<Entity>, Vec<Option<Entity>>) =
        with_case(|c| (c.pool.clone(), c.systems.iter().map(|s| s.entity).collect()));
    let mut facts = Facts::default();
    for e in pool
    {
        match world.get_entity(e)
        {
            Ok(er) => facts.ent.push((true, er.contains::<React<CA>>(), er.contains::<React<CB>>())),
            Err(_) => facts.ent.push((false, false, false)),
        }
    }
    for e in sys_entities
    {
        let Some(e) = e else { facts.sys.push(4); continue };
        if world.get_entity(e).is_err() { facts.sys.push(0); continue; }
        match verif_system_command_state(world, e)
        {
            Some(true) => facts.sys.push(1),
            Some(false) => facts.sys.push(2),
            None => facts.sys.push(3),
        }
    }
    facts.n_entities = world.entities().len();
    facts
}
