//! Entry point shared by the libFuzzer targets (harness/fuzz): bytes -> case -> run -> oracle -> panic on violation.

use std::sync::OnceLock;

use crate::driver::{Engine, Tier};

fn prop() -> &'static str
{
    static P: OnceLock<String> = OnceLock::new();
    P.get_or_init(|| std::env::var("VERIF_FUZZ_PROP").unwrap_or_default()).as_str()
}

fn leak(s: &str) -> &'static str { Box::leak(s.to_string().into_boxed_str()) }

/// Evaluates one fuzz input. A violation of the selected property panics (libFuzzer saves the input);
/// the decoded case is also written to $VERIF_FUZZ_OUT/<hash>.json if that directory is given.
pub fn one(engine: &str, data: &[u8])
{
    let p = prop();
    let (case, _, out) = match engine
    {
        "tree" =>
        {
            let id = if p.is_empty() { "*" } else { p };
            let (mut e, _) = crate::props::tree_engine(leak_known(id)).unwrap_or_else(|| crate::props::tree_engine("C02").unwrap());
            if id == "*" { e.prop = "*"; }
            e.eval_bytes(data, Tier::Thorough)
        }
        "wr16" => crate::wr16::WrEngine{ prop: "C16" }.eval_bytes(data, Tier::Thorough),
        "acc14" => crate::acc14::AccEngine.eval_bytes(data, Tier::Thorough),
        "sys17" => crate::sys17::SysEngine{ prop: "C17" }.eval_bytes(data, Tier::Thorough),
        _ => return,
    };
    if out.known_finding.is_some() { return; }
    if !out.violations.is_empty()
    {
        if let Ok(dir) = std::env::var("VERIF_FUZZ_OUT")
        {
            use std::hash::{Hash, Hasher};
            let mut h = std::collections::hash_map::DefaultHasher::new();
            data.hash(&mut h);
            let _ = std::fs::create_dir_all(&dir);
            let body = serde_json::json!({ "engine": engine, "property": p, "case": case, "violations": out.violations });
            let _ = std::fs::write(format!("{dir}/{:016x}.json", h.finish()), serde_json::to_string_pretty(&body).unwrap());
        }
        panic!("VIOLATION {}", out.violations.join(" | "));
    }
}

fn leak_known(id: &str) -> &'static str
{
    for k in ["C01","C02","C03","C04","C05","C06","C07","C08","C09","C11","C12","C13","C15","C18"] { if k == id { return k; } }
    let _ = leak;
    "C02"
}
