//! Interpreter: builds a world for a program, spawns the generated systems, applies the top-level ops and
//! records the case trace.

use bevy::ecs::system::{SystemParam, SystemState};
use bevy::ecs::world::Command;
use bevy::prelude::*;
use bevy_cobweb::prelude::*;

use std::any::TypeId;
use std::sync::Arc;

use crate::program::*;
use crate::universe::*;

//-------------------------------------------------------------------------------------------------------------------
// Readers

#[derive(SystemParam)]
pub struct AllReaders<'w, 's>
{
    se0: SystemEvent<'w, 's, Pay<0>>,
    se1: SystemEvent<'w, 's, Pay<1>>,
    b0: BroadcastEvent<'w, 's, Pay<0>>,
    b1: BroadcastEvent<'w, 's, Pay<1>>,
    e0: EntityEvent<'w, 's, Pay<0>>,
    e1: EntityEvent<'w, 's, Pay<1>>,
    ia: InsertionEvent<'w, 's, CA>,
    ib: InsertionEvent<'w, 's, CB>,
    ma: MutationEvent<'w, 's, CA>,
    mb: MutationEvent<'w, 's, CB>,
    ra: RemovalEvent<'w, 's, CA>,
    rb: RemovalEvent<'w, 's, CB>,
    d: DespawnEvent<'w>,
    res_a: ReactRes<'w, RA>,
    res_b: ReactRes<'w, RB>,
}

/// Payloads taken out of system events; dropped by the caller after the run has been logged.
#[derive(Default)]
pub struct Held
{
    p0: Vec<Pay<0>>,
    p1: Vec<Pay<1>>,
}

impl<'w, 's> AllReaders<'w, 's>
{
    /// Bevy change detection on the two reactive resources, relative to this system's (or system state's) last run.
    pub fn changed(&self) -> [bool; 2]
    {
        use bevy::ecs::change_detection::DetectChanges;
        [self.res_a.is_changed(), self.res_b.is_changed()]
    }

    /// Samples every reader. `take`: also take the system event; `second`: try to take it a second time.
    pub fn sample(&mut self, take: bool, second: bool, held: &mut Held) -> (Readings, Option<bool>)
    {
        let mut r = Readings::new();
        let mut second_ok = None;
        if take
        {
            if let Ok(p) = self.se0.take() { r.push(Item::SysEv(0, p.id)); held.p0.push(p); }
            if let Ok(p) = self.se1.take() { r.push(Item::SysEv(1, p.id)); held.p1.push(p); }
            if second
            {
                let mut any = false;
                if let Ok(p) = self.se0.take() { any = true; held.p0.push(p); }
                if let Ok(p) = self.se1.take() { any = true; held.p1.push(p); }
                second_ok = Some(any);
            }
        }
        if let Ok(p) = self.b0.try_read() { r.push(Item::Bcast(0, p.id)); }
        if let Ok(p) = self.b1.try_read() { r.push(Item::Bcast(1, p.id)); }
        if let Ok((e, p)) = self.e0.try_read() { r.push(Item::EEv(0, map_entity(e), p.id)); }
        if let Ok((e, p)) = self.e1.try_read() { r.push(Item::EEv(1, map_entity(e), p.id)); }
        if let Ok(e) = self.ia.get() { r.push(Item::Ins(0, map_entity(e))); }
        if let Ok(e) = self.ib.get() { r.push(Item::Ins(1, map_entity(e))); }
        if let Ok(e) = self.ma.get() { r.push(Item::Mut(0, map_entity(e))); }
        if let Ok(e) = self.mb.get() { r.push(Item::Mut(1, map_entity(e))); }
        if let Ok(e) = self.ra.get() { r.push(Item::Rem(0, map_entity(e))); }
        if let Ok(e) = self.rb.get() { r.push(Item::Rem(1, map_entity(e))); }
        if let Ok(e) = self.d.get() { r.push(Item::Desp(map_entity(e))); }
        // the convenience accessors (`read`, `entity`, `get_entity`, `is_empty`) must tell the same story as the
        // primary ones; a disagreement is reported as an item no event can explain
        let mut bad = |k: u8, ok: bool| { if !ok { r.push(Item::Wrong(100 + k)); } };
        macro_rules! bcast { ($k:expr, $rd:expr) => {
            match $rd.try_read() { Ok(p) => bad($k, !$rd.is_empty() && $rd.read().id == p.id), Err(_) => bad($k, $rd.is_empty()) }
        } }
        bcast!(0, self.b0);
        bcast!(1, self.b1);
        macro_rules! eev { ($k:expr, $rd:expr) => {
            match $rd.try_read()
            {
                Ok((e, p)) => bad($k, !$rd.is_empty() && $rd.read().0 == e && $rd.read().1.id == p.id && $rd.entity() == e && $rd.get_entity().ok() == Some(e)),
                Err(_) => bad($k, $rd.is_empty() && $rd.get_entity().is_err()),
            }
        } }
        eev!(2, self.e0);
        eev!(3, self.e1);
        macro_rules! ent { ($k:expr, $rd:expr) => {
            match $rd.get() { Ok(e) => bad($k, !$rd.is_empty() && $rd.entity() == e), Err(_) => bad($k, $rd.is_empty()) }
        } }
        ent!(4, self.ia);
        ent!(5, self.ib);
        ent!(6, self.ma);
        ent!(7, self.mb);
        ent!(8, self.ra);
        ent!(9, self.rb);
        ent!(10, self.d);
        (r, second_ok)
    }
}

/// A component nobody ever inserts.
#[derive(Debug, Clone, PartialEq, Eq)]
pub struct CX(pub u8);
impl ReactComponent for CX {}

#[derive(SystemParam)]
pub struct WrongReaders<'w, 's>
{
    se: SystemEvent<'w, 's, Pay<7>>,
    b: BroadcastEvent<'w, 's, Pay<7>>,
    e: EntityEvent<'w, 's, Pay<7>>,
    i: InsertionEvent<'w, 's, CX>,
    m: MutationEvent<'w, 's, CX>,
    r: RemovalEvent<'w, 's, CX>,
}

impl<'w, 's> WrongReaders<'w, 's>
{
    pub fn sample(&mut self) -> Readings
    {
        let mut r = Readings::new();
        if self.se.take().is_ok() { r.push(Item::Wrong(0)); }
        if !self.b.is_empty() { r.push(Item::Wrong(1)); }
        if !self.e.is_empty() { r.push(Item::Wrong(2)); }
        if !self.i.is_empty() { r.push(Item::Wrong(3)); }
        if !self.m.is_empty() { r.push(Item::Wrong(4)); }
        if !self.r.is_empty() { r.push(Item::Wrong(5)); }
        r
    }
}

//-------------------------------------------------------------------------------------------------------------------
// Result types

pub trait MkResult: CobwebResult
{
    fn mk(err: bool) -> Self;
}
impl MkResult for ()
{
    fn mk(_: bool) -> Self {}
}
impl MkResult for DropErr
{
    fn mk(err: bool) -> Self { if err { Err(IgnoredError) } else { Ok(()) } }
}
impl MkResult for WarnErr
{
    fn mk(err: bool) -> Self { if err { Err(WarnError::Msg("generated".into())) } else { Ok(()) } }
}

//-------------------------------------------------------------------------------------------------------------------
// System bodies

struct RunCtx
{
    run: RunId,
    script: Option<Script>,
    unit: bool,
}

fn begin_run(uid: SysUid) -> RunCtx
{
    with_case(|case| {
        case.steps += 1;
        let run = case.next_run;
        case.next_run += 1;
        let over = case.steps > case.budget;
        if over { case.over_budget = true; }
        let sd = &mut case.systems[uid as usize];
        let k = sd.runs;
        sd.runs += 1;
        let script = if over { None } else { sd.def.scripts.get(k as usize).cloned() };
        RunCtx{ run, script, unit: sd.def.result == ResKind::Unit }
    })
}

/// Queues the scripted ops of this run; returns whether the body "fails".
fn queue_script(c: &mut Commands, uid: SysUid, ctx: &RunCtx) -> bool
{
    let mut err = false;
    if let Some(script) = &ctx.script
    {
        for (i, op) in script.ops.iter().enumerate()
        {
            if !ctx.unit && script.err_after == Some(i as u8) { err = true; break; }
            queue_op(c, Sender::Run(ctx.run), i as u16, op, Some(uid));
        }
        if !ctx.unit && script.err_after == Some(script.ops.len() as u8) { err = true; }
    }
    let run = ctx.run;
    c.queue(move |_w: &mut World| push(Ev::FlushEnd{ run }));
    err
}

fn full_system<R: MkResult>(uid: SysUid) -> impl FnMut(Commands, AllReaders, Local<u32>) -> R + Send + Sync + 'static
{
    let canary = Canary{ sys: uid };
    let mut captured = 0u32;
    move |mut c: Commands, mut readers: AllReaders, mut local: Local<u32>| -> R
    {
        let _ = &canary;
        captured += 1;
        *local += 1;
        let ctx = begin_run(uid);
        let second = ctx.script.as_ref().map(|s| s.take_twice).unwrap_or(false);
        let mut held = Held::default();
        let (readings, second_take) = readers.sample(true, second, &mut held);
        push(Ev::RunBegin{ run: ctx.run, sys: uid, local_n: *local, captured_n: captured, readings: Some(readings), second_take });
        push(Ev::ChangeSample{ changed: readers.changed(), resample: false });
        drop(held);
        let err = queue_script(&mut c, uid, &ctx);
        let (again, _) = readers.sample(false, false, &mut Held::default());
        push(Ev::BodyEnd{ run: ctx.run, readings: Some(again), err });
        R::mk(err)
    }
}

/// Full reader set, commands only through a `ParamSet`.
fn pset_system<R: MkResult>(uid: SysUid)
    -> impl FnMut(ParamSet<(Commands, Query<Entity>)>, AllReaders, Local<u32>) -> R + Send + Sync + 'static
{
    let canary = Canary{ sys: uid };
    let mut captured = 0u32;
    move |mut ps: ParamSet<(Commands, Query<Entity>)>, mut readers: AllReaders, mut local: Local<u32>| -> R
    {
        let _ = &canary;
        captured += 1;
        *local += 1;
        let ctx = begin_run(uid);
        let second = ctx.script.as_ref().map(|s| s.take_twice).unwrap_or(false);
        let mut held = Held::default();
        let (readings, second_take) = readers.sample(true, second, &mut held);
        push(Ev::RunBegin{ run: ctx.run, sys: uid, local_n: *local, captured_n: captured, readings: Some(readings), second_take });
        push(Ev::ChangeSample{ changed: readers.changed(), resample: false });
        drop(held);
        let err = { let mut c = ps.p0(); queue_script(&mut c, uid, &ctx) };
        let (again, _) = readers.sample(false, false, &mut Held::default());
        push(Ev::BodyEnd{ run: ctx.run, readings: Some(again), err });
        R::mk(err)
    }
}

/// Constructed with the parameter state of an exclusive harness system: "created once" (C13) is counted here.
pub struct CtorProbe;

impl FromWorld for CtorProbe
{
    fn from_world(_: &mut World) -> Self { push(Ev::ExclStateCreated); CtorProbe }
}

fn exclusive_system<R: MkResult>(uid: SysUid)
    -> impl FnMut(&mut World, &mut SystemState<AllReaders>, Local<u32>, Local<CtorProbe>) -> R + Send + Sync + 'static
{
    let canary = Canary{ sys: uid };
    let mut captured = 0u32;
    push(Ev::ExclSystemMade(uid));
    move |world: &mut World, state: &mut SystemState<AllReaders>, mut local: Local<u32>, _probe: Local<CtorProbe>| -> R
    {
        let _ = &canary;
        captured += 1;
        *local += 1;
        let ctx = begin_run(uid);
        let second = ctx.script.as_ref().map(|s| s.take_twice).unwrap_or(false);
        let mut held = Held::default();
        let world_changed = [world.is_react_resource_changed::<RA>(), world.is_react_resource_changed::<RB>()];
        let (readings, second_take, changed) = { let mut readers = state.get_mut(world); let ch = readers.changed(); let (r, s) = readers.sample(true, second, &mut held); (r, s, ch) };
        push(Ev::RunBegin{ run: ctx.run, sys: uid, local_n: *local, captured_n: captured, readings: Some(readings), second_take });
        push(Ev::ChangeSample{ changed, resample: false });
        push(Ev::WorldChangeSample{ changed: world_changed });
        drop(held);
        // a manual run of another system command applied directly from inside the body: it must see nothing of the
        // event this run is reacting to (the runner's entry poll flushes the world, which runs this run's parked cleanup)
        if ctx.script.as_ref().map(|s| s.mid_probe).unwrap_or(false)
        {
            if let Some((puid, pent)) = with_case(|c| c.mid_probe)
            {
                let facts = take_facts(world);
                push(Ev::Op{ sender: Sender::Mid(ctx.run), idx: 0, op: Op::RunSys(SysRef::Pool(0)), resolved: Resolved::Sys(puid), facts });
                SystemCommand(pent).apply(world);
                let facts = take_facts(world);
                push(Ev::OpDone{ sender: Sender::Mid(ctx.run), idx: 0, facts });
            }
        }
        let err = { let mut c = world.commands(); queue_script(&mut c, uid, &ctx) };
        // a one-off helper system called from the body: it neither applies the commands queued above nor releases the
        // event this run is reacting to (the readers below still see it)
        let _: u8 = world.syscall_once(3u8, |In(x): In<u8>| x);
        let (again, changed) = { let mut readers = state.get_mut(world); let ch = readers.changed(); (readers.sample(false, false, &mut Held::default()).0, ch) };
        // fetching the system state a second time moves its change-detection baseline
        push(Ev::ChangeSample{ changed, resample: true });
        push(Ev::BodyEnd{ run: ctx.run, readings: Some(again), err });
        R::mk(err)
    }
}

fn minimal_system<R: MkResult>(uid: SysUid) -> impl FnMut(Commands, Local<u32>) -> R + Send + Sync + 'static
{
    let canary = Canary{ sys: uid };
    let mut captured = 0u32;
    move |mut c: Commands, mut local: Local<u32>| -> R
    {
        let _ = &canary;
        captured += 1;
        *local += 1;
        let ctx = begin_run(uid);
        push(Ev::RunBegin{ run: ctx.run, sys: uid, local_n: *local, captured_n: captured, readings: None, second_take: None });
        let err = queue_script(&mut c, uid, &ctx);
        push(Ev::BodyEnd{ run: ctx.run, readings: None, err });
        R::mk(err)
    }
}

/// A persistent reactor registered through `App::add_reactor` BEFORE `ReactPlugin` is added (the App extensions are
/// written to work in either order). Its uid is only known once the pool systems exist, hence the cell.
fn sentinel_system(cell: Arc<std::sync::atomic::AtomicU32>) -> impl FnMut(Commands, Local<u32>) + Send + Sync + 'static
{
    struct SentinelCanary(Arc<std::sync::atomic::AtomicU32>);
    impl Drop for SentinelCanary
    {
        fn drop(&mut self)
        {
            let uid = self.0.load(std::sync::atomic::Ordering::Relaxed);
            if uid != u32::MAX { push(Ev::CanaryDrop(uid as SysUid)); }
        }
    }
    let canary = SentinelCanary(cell.clone());
    let mut captured = 0u32;
    move |mut c: Commands, mut local: Local<u32>|
    {
        let _ = &canary;
        let uid = cell.load(std::sync::atomic::Ordering::Relaxed) as SysUid;
        captured += 1;
        *local += 1;
        let ctx = begin_run(uid);
        push(Ev::RunBegin{ run: ctx.run, sys: uid, local_n: *local, captured_n: captured, readings: None, second_take: None });
        let err = queue_script(&mut c, uid, &ctx);
        push(Ev::BodyEnd{ run: ctx.run, readings: None, err });
    }
}

// (no insertion key: the initial components are inserted during set-up, before the sentinel has its uid)
const SENTINEL_KEYS: [Key; 5] = [Key::Broadcast(0), Key::AnyEntityEvent(1), Key::ResourceMutation(0), Key::Mutation(1), Key::Removal(1)];

fn wrong_system<R: MkResult>(uid: SysUid) -> impl FnMut(Commands, WrongReaders, Local<u32>) -> R + Send + Sync + 'static
{
    let canary = Canary{ sys: uid };
    let mut captured = 0u32;
    move |mut c: Commands, mut readers: WrongReaders, mut local: Local<u32>| -> R
    {
        let _ = &canary;
        captured += 1;
        *local += 1;
        let ctx = begin_run(uid);
        let readings = readers.sample();
        push(Ev::RunBegin{ run: ctx.run, sys: uid, local_n: *local, captured_n: captured, readings: Some(readings), second_take: None });
        let err = queue_script(&mut c, uid, &ctx);
        let again = readers.sample();
        push(Ev::BodyEnd{ run: ctx.run, readings: Some(again), err });
        R::mk(err)
    }
}

/// One `fn` item registered several times. It cannot know which registration it is.
fn named_fn(mut readers: AllReaders, mut local: Local<u32>)
{
    *local += 1;
    let mut held = Held::default();
    let (readings, _) = readers.sample(true, false, &mut held);
    push(Ev::AnonRun{ local_n: *local, readings });
    push(Ev::ChangeSample{ changed: readers.changed(), resample: false });
    drop(held);
}

/// Expands `$body` once per (shape, result) combination with `$s` bound to the concrete system.
macro_rules! with_sys
{
    ($def:expr, $uid:expr, |$s:ident| $body:expr) =>
    {
        match ($def.shape, $def.result)
        {
            (Shape::Full, ResKind::Unit) => { let $s = full_system::<()>($uid); $body }
            (Shape::Full, ResKind::DropErr) => { let $s = full_system::<DropErr>($uid); $body }
            (Shape::Full, ResKind::WarnErr) => { let $s = full_system::<WarnErr>($uid); $body }
            (Shape::Exclusive, ResKind::Unit) => { let $s = exclusive_system::<()>($uid); $body }
            (Shape::Exclusive, ResKind::DropErr) => { let $s = exclusive_system::<DropErr>($uid); $body }
            (Shape::Exclusive, ResKind::WarnErr) => { let $s = exclusive_system::<WarnErr>($uid); $body }
            (Shape::Minimal, ResKind::Unit) => { let $s = minimal_system::<()>($uid); $body }
            (Shape::Minimal, ResKind::DropErr) => { let $s = minimal_system::<DropErr>($uid); $body }
            (Shape::Minimal, ResKind::WarnErr) => { let $s = minimal_system::<WarnErr>($uid); $body }
            (Shape::Wrong, ResKind::Unit) => { let $s = wrong_system::<()>($uid); $body }
            (Shape::Wrong, ResKind::DropErr) => { let $s = wrong_system::<DropErr>($uid); $body }
            (Shape::Wrong, ResKind::WarnErr) => { let $s = wrong_system::<WarnErr>($uid); $body }
            (Shape::PsetCmds, ResKind::Unit) => { let $s = pset_system::<()>($uid); $body }
            (Shape::PsetCmds, ResKind::DropErr) => { let $s = pset_system::<DropErr>($uid); $body }
            (Shape::PsetCmds, ResKind::WarnErr) => { let $s = pset_system::<WarnErr>($uid); $body }
            (Shape::NamedFn, _) => { let $s = named_fn; $body }
        }
    };
}

//-------------------------------------------------------------------------------------------------------------------
// Dynamic trigger bundles

#[derive(Debug, Clone, Copy)]
pub enum KeyR
{
    Broadcast(u8),
    AnyEntityEvent(u8),
    EntityEvent(Entity, u8),
    Insertion(u8),
    Mutation(u8),
    Removal(u8),
    EntityInsertion(Entity, u8),
    EntityMutation(Entity, u8),
    EntityRemoval(Entity, u8),
    ResourceMutation(u8),
    Despawn(Entity),
}

#[derive(Debug, Clone, Copy, Default)]
pub struct DynBundle
{
    keys: [Option<KeyR>; 6],
}

impl DynBundle
{
    pub fn new(keys: &[KeyR]) -> Self
    {
        let mut b = DynBundle::default();
        for (i, k) in keys.iter().take(6).enumerate() { b.keys[i] = Some(*k); }
        b
    }
}

/// Calls `$f` (a generic closure-like macro body) with the concrete trigger of a key.
macro_rules! with_trigger
{
    ($key:expr, |$t:ident| $body:expr) =>
    {
        match $key
        {
            KeyR::Broadcast(0) => { let $t = broadcast::<Pay<0>>(); $body }
            // the resource type used as an event payload: a different registry keyed by the same `TypeId`
            KeyR::Broadcast(2) => { let $t = broadcast::<RA>(); $body }
            KeyR::Broadcast(_) => { let $t = broadcast::<Pay<1>>(); $body }
            KeyR::AnyEntityEvent(0) => { let $t = any_entity_event::<Pay<0>>(); $body }
            KeyR::AnyEntityEvent(2) => { let $t = any_entity_event::<RA>(); $body }
            KeyR::AnyEntityEvent(_) => { let $t = any_entity_event::<Pay<1>>(); $body }
            KeyR::EntityEvent(e, 0) => { let $t = entity_event::<Pay<0>>(e); $body }
            KeyR::EntityEvent(e, _) => { let $t = entity_event::<Pay<1>>(e); $body }
            KeyR::Insertion(0) => { let $t = insertion::<CA>(); $body }
            KeyR::Insertion(_) => { let $t = insertion::<CB>(); $body }
            KeyR::Mutation(0) => { let $t = mutation::<CA>(); $body }
            KeyR::Mutation(_) => { let $t = mutation::<CB>(); $body }
            KeyR::Removal(0) => { let $t = removal::<CA>(); $body }
            KeyR::Removal(_) => { let $t = removal::<CB>(); $body }
            KeyR::EntityInsertion(e, 0) => { let $t = entity_insertion::<CA>(e); $body }
            KeyR::EntityInsertion(e, _) => { let $t = entity_insertion::<CB>(e); $body }
            KeyR::EntityMutation(e, 0) => { let $t = entity_mutation::<CA>(e); $body }
            KeyR::EntityMutation(e, _) => { let $t = entity_mutation::<CB>(e); $body }
            KeyR::EntityRemoval(e, 0) => { let $t = entity_removal::<CA>(e); $body }
            KeyR::EntityRemoval(e, _) => { let $t = entity_removal::<CB>(e); $body }
            KeyR::ResourceMutation(0) => { let $t = resource_mutation::<RA>(); $body }
            KeyR::ResourceMutation(1) => { let $t = resource_mutation::<RB>(); $body }
            KeyR::ResourceMutation(_) => { let $t = resource_mutation::<RC>(); $body }
            KeyR::Despawn(e) => { let $t = despawn(e); $body }
        }
    };
}

impl ReactionTriggerBundle for DynBundle
{
    fn len(&self) -> usize
    {
        self.keys.iter().filter(|k| k.is_some()).count()
    }

    fn collect_reactor_types(self, func: &mut impl FnMut(ReactorType))
    {
        for key in self.keys.iter().flatten()
        {
            with_trigger!(*key, |t| t.collect_reactor_types(&mut *func));
        }
    }

    fn register_triggers(self, commands: &mut Commands, handle: &ReactorHandle)
    {
        for key in self.keys.iter().flatten()
        {
            with_trigger!(*key, |t| t.register_triggers(commands, handle));
        }
    }
}

/// The same keys in the same order, handed to the framework as a plain bundle, a pair, a triple or a nested tuple of
/// bundles (the framework's tuple implementations of `ReactionTriggerBundle` are what user code normally goes through).
#[derive(Debug, Clone, Copy)]
pub enum Shaped
{
    One(DynBundle),
    Two((DynBundle, DynBundle)),
    Three((DynBundle, DynBundle, DynBundle)),
    Nested(((DynBundle, DynBundle), DynBundle)),
}

impl Shaped
{
    pub fn new(b: DynBundle) -> Self
    {
        let keys: Vec<KeyR> = b.keys.iter().flatten().copied().collect();
        let n = keys.len();
        // the shape is a function of the bundle alone
        let tag = keys.iter().fold(n, |acc, k| acc * 7 + match k
        {
            KeyR::Broadcast(t) | KeyR::AnyEntityEvent(t) | KeyR::Insertion(t) | KeyR::Mutation(t) | KeyR::Removal(t) | KeyR::ResourceMutation(t) => 1 + *t as usize,
            KeyR::EntityEvent(_, t) | KeyR::EntityInsertion(_, t) | KeyR::EntityMutation(_, t) | KeyR::EntityRemoval(_, t) => 3 + *t as usize,
            KeyR::Despawn(_) => 5,
        });
        let part = |from: usize, to: usize| DynBundle::new(&keys[from.min(n)..to.min(n)]);
        match tag % 4
        {
            0 => Shaped::One(b),
            1 => Shaped::Two((part(0, (n + 1) / 2), part((n + 1) / 2, n))),
            2 => Shaped::Three((part(0, n / 3), part(n / 3, 2 * n / 3 + 1), part(2 * n / 3 + 1, n))),
            _ => Shaped::Nested(((part(0, 1), part(1, n / 2 + 1)), part(n / 2 + 1, n))),
        }
    }
}

impl ReactionTriggerBundle for Shaped
{
    fn len(&self) -> usize
    {
        match self { Shaped::One(b) => b.len(), Shaped::Two(b) => b.len(), Shaped::Three(b) => b.len(), Shaped::Nested(b) => b.len() }
    }

    fn collect_reactor_types(self, func: &mut impl FnMut(ReactorType))
    {
        match self
        {
            Shaped::One(b) => b.collect_reactor_types(func),
            Shaped::Two(b) => b.collect_reactor_types(func),
            Shaped::Three(b) => b.collect_reactor_types(func),
            Shaped::Nested(b) => b.collect_reactor_types(func),
        }
    }

    fn register_triggers(self, commands: &mut Commands, handle: &ReactorHandle)
    {
        match self
        {
            Shaped::One(b) => b.register_triggers(commands, handle),
            Shaped::Two(b) => b.register_triggers(commands, handle),
            Shaped::Three(b) => b.register_triggers(commands, handle),
            Shaped::Nested(b) => b.register_triggers(commands, handle),
        }
    }
}

fn resolve_key(case: &Case, key: Key) -> KeyR
{
    let ent = |e: u8| case.pool[(e as usize) % case.pool.len()];
    match key
    {
        Key::Broadcast(t) => KeyR::Broadcast(t),
        Key::AnyEntityEvent(t) => KeyR::AnyEntityEvent(t),
        Key::EntityEvent(e, t) => KeyR::EntityEvent(ent(e), t),
        Key::Insertion(c) => KeyR::Insertion(c),
        Key::Mutation(c) => KeyR::Mutation(c),
        Key::Removal(c) => KeyR::Removal(c),
        Key::EntityInsertion(e, c) => KeyR::EntityInsertion(ent(e), c),
        Key::EntityMutation(e, c) => KeyR::EntityMutation(ent(e), c),
        Key::EntityRemoval(e, c) => KeyR::EntityRemoval(ent(e), c),
        Key::ResourceMutation(r) => KeyR::ResourceMutation(r),
        Key::Despawn(e) => KeyR::Despawn(ent(e)),
    }
}

/// Normalises entity indices of a key into the pool range (so the trace names real pool slots).
fn normalise_key(case: &Case, key: Key) -> Key
{
    let n = case.pool.len() as u8;
    match key
    {
        Key::EntityEvent(e, t) => Key::EntityEvent(e % n, t),
        Key::EntityInsertion(e, c) => Key::EntityInsertion(e % n, c),
        Key::EntityMutation(e, c) => Key::EntityMutation(e % n, c),
        Key::EntityRemoval(e, c) => Key::EntityRemoval(e % n, c),
        Key::Despawn(e) => Key::Despawn(e % n),
        k => k,
    }
}

//-------------------------------------------------------------------------------------------------------------------
// Helper systems used by ops

fn mutate_sys<C: ReactComponent + Bump>(In(e): In<Entity>, mut c: Commands, mut q: ReactiveMut<C>)
{
    if let Ok(v) = q.get_mut(&mut c, e) { v.bump(); }
}

fn res_mutate_sys<R: ReactResource + Bump>(mut c: Commands, mut r: ReactResMut<R>)
{
    r.get_mut(&mut c).bump();
}

pub trait Bump
{
    fn bump(&mut self);
}
impl Bump for CA { fn bump(&mut self) { self.0 = self.0.wrapping_add(1); } }
impl Bump for CB { fn bump(&mut self) { self.0 = self.0.wrapping_add(1); } }
impl Bump for RA { fn bump(&mut self) { self.0 = self.0.wrapping_add(1); } }
impl Bump for RB { fn bump(&mut self) { self.0 = self.0.wrapping_add(1); } }

fn probe_sys(mut readers: AllReaders)
{
    let (readings, _) = readers.sample(false, false, &mut Held::default());
    push(Ev::Probe{ readings, exclusive: false });
}

fn probe_excl_sys(world: &mut World, state: &mut SystemState<AllReaders>)
{
    let (readings, _) = { let mut readers = state.get_mut(world); readers.sample(false, false, &mut Held::default()) };
    push(Ev::Probe{ readings, exclusive: true });
}

//-------------------------------------------------------------------------------------------------------------------
// Ops

fn resolve_sys(case: &Case, s: SysRef) -> SysUid
{
    let n_pool = case.systems.iter().filter(|s| s.pool.is_some()).count().max(1);
    match s
    {
        SysRef::Pool(i) => (i as usize % n_pool) as SysUid,
        SysRef::Fresh(j) =>
        {
            if case.fresh.is_empty() { (j as usize % n_pool) as SysUid }
            else { case.fresh[j as usize % case.fresh.len()] }
        }
    }
}

fn sys_entity(case: &Case, uid: SysUid) -> Option<Entity>
{
    case.systems[uid as usize].entity
}

enum Action
{
    Nothing,
    RunSys(Entity),
    RunMany(Entity, u32),
    SysEvent(Entity, u8, u32),
    Broadcast(u8, u32),
    EntityEvent(Entity, u8, u32),
    Insert(Entity, u8, u8),
    Mutate(Entity, u8),
    TriggerMutation(Entity, u8),
    Remove(Entity, u8),
    ResMutate(u8),
    ResTrigger(u8),
    Despawn(Entity, bool),
    Gc,
    Poll,
    AutoDespawn(Entity),
    With{ cmd: Entity, mode: RegMode, bundle: DynBundle, token_slot: Option<u16> },
    Fresh{ uid: SysUid, def: Arc<SysDef>, api: FreshApi, bundle: DynBundle, token_slot: Option<u16> },
    Revoke(RevokeToken),
    Probe(bool),
}

/// Every fifth payload owns the auto-despawn signal of a pool entity (prepared when the payload value is built).
fn carry_for(case: &mut Case, id: u32) -> Option<u8>
{
    if id % 5 != 4 || case.pool.is_empty() { return None; }
    let k = ((id / 5) as usize) % case.pool.len();
    case.carry.insert(id, case.pool[k]);
    Some(k as u8)
}

/// Resolves an op against the dynamic tables (at queue time, as user code would).
fn resolve_op(op: &Op, own: Option<SysUid>) -> (Resolved, Action)
{
    with_case(|case| {
        let ent = |case: &Case, e: u8| case.pool[(e as usize) % case.pool.len()];
        match op
        {
            Op::RunSys(s) =>
            {
                let uid = resolve_sys(case, *s);
                match sys_entity(case, uid)
                {
                    Some(e) => (Resolved::Sys(uid), Action::RunSys(e)),
                    None => (Resolved::Skipped(SkipReason::NoToken), Action::Nothing),
                }
            }
            Op::RunMany(s, k) =>
            {
                let uid = resolve_sys(case, *s);
                match sys_entity(case, uid)
                {
                    Some(e) => (Resolved::Sys(uid), Action::RunMany(e, run_many_len(*k))),
                    None => (Resolved::Skipped(SkipReason::NoToken), Action::Nothing),
                }
            }
            Op::SysEvent(s, ty) =>
            {
                let uid = resolve_sys(case, *s);
                match sys_entity(case, uid)
                {
                    Some(e) =>
                    {
                        let id = case.new_payload();
                        let carries = carry_for(case, id);
                        (Resolved::Payload{ id, sys: Some(uid), carries }, Action::SysEvent(e, *ty, id))
                    }
                    None => (Resolved::Skipped(SkipReason::NoToken), Action::Nothing),
                }
            }
            Op::SysEventToEntity(e, ty) =>
            {
                let id = case.new_payload();
                let carries = carry_for(case, id);
                // one target in four is the null id `Entity::PLACEHOLDER` (an unset handler slot)
                let target = if *e % 4 == 3 { Entity::PLACEHOLDER } else { ent(case, *e) };
                (Resolved::Payload{ id, sys: None, carries }, Action::SysEvent(target, *ty, id))
            }
            Op::Broadcast(ty) =>
            {
                let id = case.new_payload();
                let carries = carry_for(case, id);
                (Resolved::Payload{ id, sys: None, carries }, Action::Broadcast(*ty, id))
            }
            Op::EntityEvent(e, ty) =>
            {
                let id = case.new_payload();
                let carries = carry_for(case, id);
                (Resolved::Payload{ id, sys: None, carries }, Action::EntityEvent(ent(case, *e), *ty, id))
            }
            Op::Insert(e, c, v) => (Resolved::None, Action::Insert(ent(case, *e), *c, *v)),
            Op::Mutate(e, c) => (Resolved::None, Action::Mutate(ent(case, *e), *c)),
            Op::TriggerMutation(e, c) => (Resolved::None, Action::TriggerMutation(ent(case, *e), *c)),
            Op::Remove(e, c) => (Resolved::None, Action::Remove(ent(case, *e), *c)),
            Op::ResMutate(r) => (Resolved::None, Action::ResMutate(*r)),
            Op::ResTrigger(r) => (Resolved::None, Action::ResTrigger(*r)),
            Op::Despawn(Target::Ent(e), rec) => (Resolved::None, Action::Despawn(ent(case, *e), *rec)),
            Op::Despawn(Target::Sys(s), rec) =>
            {
                let uid = resolve_sys(case, *s);
                match sys_entity(case, uid)
                {
                    Some(e) => (Resolved::Sys(uid), Action::Despawn(e, *rec)),
                    None => (Resolved::Skipped(SkipReason::NoToken), Action::Nothing),
                }
            }
            Op::Gc => (Resolved::None, Action::Gc),
            Op::Poll => (Resolved::None, Action::Poll),
            Op::AutoDespawn(e) => (Resolved::None, Action::AutoDespawn(ent(case, *e))),
            Op::Probe(x) => (Resolved::None, Action::Probe(*x)),
            Op::Revoke(slot) =>
            {
                if case.tokens.is_empty() { return (Resolved::Skipped(SkipReason::NoToken), Action::Nothing); }
                let idx = *slot as usize % case.tokens.len();
                let rec = &case.tokens[idx];
                let (sys, keys) = (rec.sys, rec.keys.clone());
                for k in keys { case.issued.remove(&(sys, k)); }
                (Resolved::Revoke{ token: idx as u16 }, Action::Revoke(case.tokens[idx].token.clone()))
            }
            Op::Register{ target, bundle } =>
            {
                let _ = own;
                match target
                {
                    RegTarget::Pool(s) =>
                    {
                        let uid = resolve_sys(case, SysRef::Pool(*s));
                        let mode = case.systems[uid as usize].def.reg_mode;
                        if mode != RegMode::Persistent && case.systems[uid as usize].nonpersistent_done
                        {
                            *case.skipped.entry(SkipReason::SecondNonPersistentWith).or_default() += 1;
                            return (Resolved::Skipped(SkipReason::SecondNonPersistentWith), Action::Nothing);
                        }
                        let Some(cmd) = sys_entity(case, uid) else {
                            return (Resolved::Skipped(SkipReason::NoToken), Action::Nothing);
                        };
                        // duplicate rule: a key is not registered again by a later call for the same reactor
                        // (until revoked); the same key twice inside ONE bundle is allowed
                        let mut keys = Vec::new();
                        let normalised: Vec<Key> = bundle.iter().take(6).map(|k| normalise_key(case, *k)).collect();
                        for k in normalised
                        {
                            if case.issued.contains(&(uid, k))
                            {
                                *case.skipped.entry(SkipReason::DuplicateKey).or_default() += 1;
                                continue;
                            }
                            keys.push(k);
                        }
                        for k in keys.iter() { case.issued.insert((uid, *k)); }
                        if mode != RegMode::Persistent { case.systems[uid as usize].nonpersistent_done = true; }
                        let resolved_keys: Vec<KeyR> = keys.iter().map(|k| resolve_key(case, *k)).collect();
                        let token_slot = if mode == RegMode::Revokable { Some(case.tokens.len() as u16) } else { None };
                        (
                            Resolved::Register{ sys: uid, mode, api: RegApi::With, keys, token: token_slot },
                            Action::With{ cmd, mode, bundle: DynBundle::new(&resolved_keys), token_slot }
                        )
                    }
                    RegTarget::Fresh{ template, api } =>
                    {
                        if case.templates.is_empty()
                        {
                            return (Resolved::Skipped(SkipReason::FreshInFresh), Action::Nothing);
                        }
                        let t = *template as usize % case.templates.len();
                        let def = case.templates[t].clone();
                        // (the reactor becomes visible to other ops when its registration is applied)
                        let uid = case.add_system(def.clone(), None, None, Some(t as u8));
                        let mut keys = Vec::new();
                        for k in bundle.iter().take(6).map(|k| normalise_key(case, *k))
                        {
                            keys.push(k);
                        }
                        for k in keys.iter() { case.issued.insert((uid, *k)); }
                        let resolved_keys: Vec<KeyR> = keys.iter().map(|k| resolve_key(case, *k)).collect();
                        let (mode, rapi) = match api
                        {
                            FreshApi::On => (RegMode::Cleanup, RegApi::On),
                            FreshApi::OnPersistent => (RegMode::Persistent, RegApi::OnPersistent),
                            FreshApi::OnRevokable => (RegMode::Revokable, RegApi::OnRevokable),
                            FreshApi::Once => (RegMode::Revokable, RegApi::Once),
                        };
                        let token_slot = match api
                        {
                            FreshApi::OnRevokable | FreshApi::Once => Some(case.tokens.len() as u16),
                            _ => None,
                        };
                        (
                            Resolved::Register{ sys: uid, mode, api: rapi, keys, token: token_slot },
                            Action::Fresh{ uid, def, api: *api, bundle: DynBundle::new(&resolved_keys), token_slot }
                        )
                    }
                }
            }
        }
    })
}

fn record_token(token: RevokeToken, sys: SysUid, keys: Vec<Key>)
{
    with_case(|case| case.tokens.push(TokenRec{ token, sys, keys }));
}

fn keys_of(resolved: &Resolved) -> (SysUid, Vec<Key>)
{
    match resolved
    {
        Resolved::Register{ sys, keys, .. } => (*sys, keys.clone()),
        _ => (0, Vec::new()),
    }
}

/// How many manual runs `Op::RunMany(_, k)` queues at once: 140, 200, 260, 1100 or 2100 (trees of more than a thousand /
/// two thousand commands - all of them postponed when the target is the sender itself -, for thresholds in that range).
pub fn run_many_len(k: u8) -> u32 { match k % 5 { 3 => 1100, 4 => 2100, x => 140 + 60 * x as u32 } }

/// Performs the API call of an action through `Commands`.
fn perform(c: &mut Commands, action: Action, resolved: &Resolved)
{
    match action
    {
        Action::Nothing => {}
        Action::RunSys(e) => c.queue(SystemCommand(e)),
        Action::RunMany(e, n) => { for _ in 0..n { c.queue(SystemCommand(e)); } }
        // one payload in three takes the `World` route of the same call from inside a queued command closure (the way an
        // exclusive system or a custom command sends it): the delivery is applied in-line by that closure, possibly
        // while its target is executing
        Action::SysEvent(e, 0, id) if id % 3 == 1 => { let p = Pay::<0>::of_case(id); c.queue(move |w: &mut World| w.send_system_event(SystemCommand(e), p)); }
        Action::SysEvent(e, _, id) if id % 3 == 1 => { let p = Pay::<1>::of_case(id); c.queue(move |w: &mut World| w.send_system_event(SystemCommand(e), p)); }
        Action::Broadcast(0, id) if id % 3 == 1 => { let p = Pay::<0>::of_case(id); c.queue(move |w: &mut World| w.broadcast(p)); }
        Action::Broadcast(_, id) if id % 3 == 1 => { let p = Pay::<1>::of_case(id); c.queue(move |w: &mut World| w.broadcast(p)); }
        Action::EntityEvent(e, 0, id) if id % 12 == 4 => { let p = Pay::<0>::of_case(id); c.queue(move |w: &mut World| w.entity_event(e, p)); }
        Action::EntityEvent(e, _, id) if id % 12 == 4 => { let p = Pay::<1>::of_case(id); c.queue(move |w: &mut World| w.entity_event(e, p)); }
        Action::SysEvent(e, 0, id) => c.send_system_event(SystemCommand(e), Pay::<0>::of_case(id)),
        Action::SysEvent(e, _, id) => c.send_system_event(SystemCommand(e), Pay::<1>::of_case(id)),
        Action::Broadcast(0, id) => c.react().broadcast(Pay::<0>::of_case(id)),
        Action::Broadcast(_, id) => c.react().broadcast(Pay::<1>::of_case(id)),
        // the same call through every way of obtaining a `ReactCommands`: `Commands::react`, a reborrow of it, its
        // inner `Commands`, and `EntityCommands::react` (only for an entity that exists when the call is made)
        Action::EntityEvent(e, ty, id) =>
        {
            let via_entity = id % 4 == 1 && c.get_entity(e).is_some();
            macro_rules! send { ($rc:expr) => { if ty == 0 { $rc.entity_event(e, Pay::<0>::of_case(id)) } else { $rc.entity_event(e, Pay::<1>::of_case(id)) } } }
            if via_entity { let mut ec = c.entity(e); send!(ec.react()); }
            else if id % 4 == 2 { let mut rc = c.react(); send!(rc.reborrow()); }
            else if id % 4 == 3 { let mut rc = c.react(); send!(rc.commands().react()); }
            else { send!(c.react()); }
        }
        Action::Insert(e, comp, v) =>
        {
            let via_entity = v % 2 == 1 && c.get_entity(e).is_some();
            macro_rules! ins { ($rc:expr) => { if comp == 0 { $rc.insert(e, CA(v)) } else { $rc.insert(e, CB(v)) } } }
            if via_entity { let mut ec = c.entity(e); ins!(ec.react()); } else { ins!(c.react()); }
        }
        Action::Mutate(e, 0) => c.syscall(e, mutate_sys::<CA>),
        Action::Mutate(e, _) => c.syscall(e, mutate_sys::<CB>),
        Action::TriggerMutation(e, 0) => c.queue(move |w: &mut World| React::<CA>::trigger_mutation(e, w)),
        Action::TriggerMutation(e, _) => c.queue(move |w: &mut World| React::<CB>::trigger_mutation(e, w)),
        Action::Remove(e, 0) => c.queue(move |w: &mut World| { if let Ok(mut em) = w.get_entity_mut(e) { em.remove::<React<CA>>(); } }),
        Action::Remove(e, _) => c.queue(move |w: &mut World| { if let Ok(mut em) = w.get_entity_mut(e) { em.remove::<React<CB>>(); } }),
        Action::ResMutate(0) => c.syscall((), res_mutate_sys::<RA>),
        Action::ResMutate(_) => c.syscall((), res_mutate_sys::<RB>),
        Action::ResTrigger(0) => c.react().trigger_resource_mutation::<RA>(),
        Action::ResTrigger(1) => c.react().trigger_resource_mutation::<RB>(),
        Action::ResTrigger(_) => c.react().trigger_resource_mutation::<RC>(),
        Action::Despawn(e, rec) => c.queue(move |w: &mut World| {
            if let Ok(em) = w.get_entity_mut(e) { if rec { em.despawn_recursive(); } else { em.despawn(); } }
        }),
        Action::Gc => c.queue(|w: &mut World| garbage_collect_entities(w)),
        Action::Poll => c.queue(|w: &mut World| schedule_removal_and_despawn_reactors(w)),
        Action::AutoDespawn(e) => c.queue(move |w: &mut World| { let sig = w.resource::<AutoDespawner>().prepare(e); drop(sig); }),
        Action::Probe(false) => c.syscall((), probe_sys),
        Action::Probe(true) => c.syscall((), probe_excl_sys),
        Action::Revoke(token) => c.react().revoke(token),
        Action::With{ cmd, mode, bundle, token_slot } =>
        {
            let m = match mode
            {
                RegMode::Persistent => ReactorMode::Persistent,
                RegMode::Cleanup => ReactorMode::Cleanup,
                RegMode::Revokable => ReactorMode::Revokable,
            };
            let token = c.react().with(Shaped::new(bundle), SystemCommand(cmd), m);
            if let (Some(_), Some(token)) = (token_slot, token)
            {
                let (sys, keys) = keys_of(resolved);
                record_token(token, sys, keys);
            }
        }
        Action::Fresh{ uid, def, api, bundle, token_slot } =>
        {
            let _ = token_slot;
            let bundle = Shaped::new(bundle);
            let (sys, keys) = keys_of(resolved);
            match api
            {
                FreshApi::On =>
                {
                    // `on` does not return the reactor's id; it is bound by the OpDone marker.
                    with_sys!(def, uid, |s| c.react().on(bundle, s));
                }
                FreshApi::OnPersistent =>
                {
                    let cmd = with_sys!(def, uid, |s| c.react().on_persistent(bundle, s));
                    with_case(|case| case.bind_system_entity(uid, *cmd));
                }
                FreshApi::OnRevokable =>
                {
                    let token = with_sys!(def, uid, |s| c.react().on_revokable(bundle, s));
                    let cmd: SystemCommand = token.clone().into();
                    with_case(|case| case.bind_system_entity(uid, *cmd));
                    record_token(token, sys, keys);
                }
                FreshApi::Once =>
                {
                    let token = with_sys!(def, uid, |s| c.react().once(bundle, s));
                    let cmd: SystemCommand = token.clone().into();
                    with_case(|case| case.bind_system_entity(uid, *cmd));
                    record_token(token, sys, keys);
                }
            }
        }
    }
}

/// If the op registered a reactor through `on` (which does not return its id), find the new system command.
fn bind_unbound(world: &mut World, resolved: &Resolved)
{
    let Resolved::Register{ sys, api: RegApi::On, .. } = resolved else { return };
    let uid = *sys;
    if with_case(|case| case.systems[uid as usize].entity.is_some()) { return; }
    let all = verif_system_commands(world);
    with_case(|case| {
        let unknown: Vec<Entity> = all.into_iter().filter(|e| !case.ent_index.contains_key(e)).collect();
        if unknown.len() == 1 { case.bind_system_entity(uid, unknown[0]); }
    });
}

/// A fresh reactor can be named by other ops from the moment its registration is applied.
fn make_visible(resolved: &Resolved)
{
    if let Resolved::Register{ sys, api, .. } = resolved
    {
        if *api != RegApi::With { with_case(|case| case.fresh.push(*sys)); }
    }
}

/// Queues marker, API call(s) and done-marker of one op.
pub fn queue_op(c: &mut Commands, sender: Sender, idx: u16, op: &Op, own: Option<SysUid>)
{
    let (resolved, action) = resolve_op(op, own);
    {
        let (op, resolved) = (op.clone(), resolved.clone());
        c.queue(move |w: &mut World| {
            let facts = take_facts(w);
            make_visible(&resolved);
            push(Ev::Op{ sender, idx, op, resolved, facts });
        });
    }
    perform(c, action, &resolved);
    c.queue(move |w: &mut World| {
        bind_unbound(w, &resolved);
        let facts = take_facts(w);
        push(Ev::OpDone{ sender, idx, facts });
    });
}

/// Applies a top-level op through the direct `World` API where one exists.
fn direct_op(world: &mut World, sender: Sender, op: &Op)
{
    let (resolved, action) = resolve_op(op, None);
    let facts = take_facts(world);
    make_visible(&resolved);
    push(Ev::Op{ sender, idx: 0, op: op.clone(), resolved: resolved.clone(), facts });
    match action
    {
        Action::RunSys(e) => SystemCommand(e).apply(world),
        Action::SysEvent(e, 0, id) => world.send_system_event(SystemCommand(e), Pay::<0>::of_case(id)),
        Action::SysEvent(e, _, id) => world.send_system_event(SystemCommand(e), Pay::<1>::of_case(id)),
        Action::Broadcast(0, id) => world.broadcast(Pay::<0>::of_case(id)),
        Action::Broadcast(_, id) => world.broadcast(Pay::<1>::of_case(id)),
        Action::EntityEvent(e, 0, id) => world.entity_event(e, Pay::<0>::of_case(id)),
        Action::EntityEvent(e, _, id) => world.entity_event(e, Pay::<1>::of_case(id)),
        Action::TriggerMutation(e, 0) => React::<CA>::trigger_mutation(e, world),
        Action::TriggerMutation(e, _) => React::<CB>::trigger_mutation(e, world),
        Action::ResTrigger(0) => world.trigger_resource_mutation::<RA>(),
        Action::ResTrigger(1) => world.trigger_resource_mutation::<RB>(),
        Action::ResTrigger(_) => world.trigger_resource_mutation::<RC>(),
        Action::Gc => garbage_collect_entities(world),
        Action::Poll => schedule_removal_and_despawn_reactors(world),
        Action::AutoDespawn(e) => { let sig = world.resource::<AutoDespawner>().prepare(e); drop(sig); }
        Action::Despawn(e, rec) =>
        {
            if let Ok(em) = world.get_entity_mut(e) { if rec { em.despawn_recursive(); } else { em.despawn(); } }
        }
        Action::Remove(e, 0) => { if let Ok(mut em) = world.get_entity_mut(e) { em.remove::<React<CA>>(); } }
        Action::Remove(e, _) => { if let Ok(mut em) = world.get_entity_mut(e) { em.remove::<React<CB>>(); } }
        other =>
        {
            // everything else goes through `world.react` / commands + flush
            let mut c = world.commands();
            perform(&mut c, other, &resolved);
            world.flush();
        }
    }
    bind_unbound(world, &resolved);
    let facts = take_facts(world);
    push(Ev::OpDone{ sender, idx: 0, facts });
}

//-------------------------------------------------------------------------------------------------------------------
// Hook forwarding

fn map_kind(kind: VerifApplyKind) -> HookKind
{
    let comp = |id: TypeId| -> Option<u8> {
        if id == TypeId::of::<CA>() { Some(0) } else if id == TypeId::of::<CB>() { Some(1) } else { None }
    };
    match kind
    {
        VerifApplyKind::Manual => HookKind::Manual,
        VerifApplyKind::SystemEvent => HookKind::SystemEvent,
        VerifApplyKind::Resource => HookKind::Resource,
        VerifApplyKind::Insertion(id) => comp(id).map(HookKind::Insertion).unwrap_or(HookKind::Unknown),
        VerifApplyKind::Mutation(id) => comp(id).map(HookKind::Mutation).unwrap_or(HookKind::Unknown),
        VerifApplyKind::Removal(id) => comp(id).map(HookKind::Removal).unwrap_or(HookKind::Unknown),
        VerifApplyKind::EntityEvent => HookKind::EntityEvent,
        VerifApplyKind::Broadcast => HookKind::Broadcast,
        VerifApplyKind::Despawn => HookKind::Despawn,
    }
}

thread_local!
{
    /// set while the sibling `App` of the same thread is at work: its hook events are not part of the case
    static MUTED: std::cell::Cell<bool> = std::cell::Cell::new(false);
}

/// A second, unrelated `App` living on the same thread: a reactor, a counted entity, and between any two top-level ops of
/// the case it broadcasts, collects and (every third time) runs a frame. Nothing of that may leak into the case's world.
struct Sibling
{
    app: App,
    rounds: u32,
}

impl Sibling
{
    fn new() -> Self
    {
        let mut app = App::new();
        app.add_plugins(ReactPlugin);
        app.world_mut().react(|rc| { rc.on_persistent(broadcast::<u8>(), || {}); });
        Sibling{ app, rounds: 0 }
    }

    fn work(&mut self)
    {
        MUTED.with(|m| m.set(true));
        self.rounds += 1;
        let world = self.app.world_mut();
        // a counted entity whose signal is dropped at once, a reaction tree, a collection
        let e = world.spawn_empty().id();
        let sig = world.resource::<AutoDespawner>().prepare(e);
        drop(sig);
        world.broadcast(self.rounds as u8);
        garbage_collect_entities(world);
        if self.rounds % 3 == 0 { self.app.update(); }
        MUTED.with(|m| m.set(false));
    }
}

pub fn forward_hook(ev: VerifEvent)
{
    if MUTED.with(|m| m.get()) { return; }
    let mapped = match ev
    {
        VerifEvent::Apply{ id, kind, sys, source, .. } =>
            Hook::Apply{ id, kind: map_kind(kind), sys: map_entity(sys), source: source.map(map_entity) },
        VerifEvent::Enter{ id, sys, replay, depth } => Hook::Enter{ id, sys: map_entity(sys), replay, depth: depth as u32 },
        VerifEvent::Abort{ id, reason, .. } => Hook::Abort{ id, reason: match reason {
            VerifAbortReason::EntityGone => AbortReason::EntityGone,
            VerifAbortReason::StorageGone => AbortReason::StorageGone,
            VerifAbortReason::RootBusy => AbortReason::RootBusy,
        } },
        VerifEvent::Postpone{ id, .. } => Hook::Postpone{ id },
        VerifEvent::Start{ id, .. } => Hook::Start{ id },
        VerifEvent::Finish{ id, reinserted, .. } => Hook::Finish{ id, reinserted },
        VerifEvent::Exit{ id, .. } => Hook::Exit{ id },
        VerifEvent::Discard{ id, sys } => Hook::Discard{ id, sys: map_entity(sys) },
        VerifEvent::GcBegin => Hook::GcBegin,
        VerifEvent::GcEnd => Hook::GcEnd,
        VerifEvent::Gc{ entity, existed } => Hook::Gc{ entity: map_entity(entity), existed },
        VerifEvent::PollBegin => Hook::PollBegin,
        VerifEvent::PollEnd => Hook::PollEnd,
    };
    push(Ev::Hook(mapped));
}

//-------------------------------------------------------------------------------------------------------------------
// Running a program

fn quiescent(world: &mut World, phase: u8)
{
    let facts = take_facts(world);
    let s = verif_snapshot(world).unwrap_or_default();
    let sys_entities: Vec<Option<Entity>> = with_case(|c| c.systems.iter().map(|s| s.entity).collect());
    let regs_of = sys_entities.iter()
        .map(|e| e.map(|e| verif_registrations_of(world, SystemCommand(e)) as u32).unwrap_or(0))
        .collect();
    let snap = Snap{
        counter: s.counter as u32,
        buffered: s.buffered as u32,
        prepared: [s.prepared[0] as u32, s.prepared[1] as u32, s.prepared[2] as u32, s.prepared[3] as u32],
        reacting: s.reacting,
        storages_without_callback: s.storages_without_callback.len() as u32,
        data_entities: s.data_entities as u32,
        cache_handles: s.cache_handles as u32,
        entity_handles: s.entity_handles as u32,
        regs_of,
    };
    push(Ev::Quiescent{ phase, snap, facts });
}

pub struct RunOutput
{
    pub trace: Vec<Ev>,
    pub over_budget: bool,
    pub skipped: Vec<(SkipReason, u32)>,
}

thread_local!
{
    /// ops waiting to be performed by the plain Bevy systems of the frame: (slot, top index, op)
    static PENDING_SLOT_OPS: std::cell::RefCell<Vec<(u8, u32, Op)>> = std::cell::RefCell::new(Vec::new());
}

/// A plain Bevy system: performs the ops queued for its slot of the frame.
fn slot_sys<const S: u8>(mut c: Commands)
{
    let mine: Vec<(u32, Op)> = PENDING_SLOT_OPS.with(|p| {
        let mut p = p.borrow_mut();
        let mine = p.iter().filter(|x| x.0 == S).map(|x| (x.1, x.2.clone())).collect();
        p.retain(|x| x.0 != S);
        mine
    });
    for (i, op) in mine { queue_op(&mut c, Sender::Top(i), 0, &op, None); }
}

fn settle_manual(world: &mut World)
{
    garbage_collect_entities(world);
    schedule_removal_and_despawn_reactors(world);
    garbage_collect_entities(world);
}

fn run_inner(program: &Program)
{
    PENDING_SLOT_OPS.with(|p| p.borrow_mut().clear());
    let mut app = App::new();
    // in half of the programs one persistent reactor is registered through the App extension before the plugin is added
    let early = program.setup.n_entities % 2 == 0;
    let sentinel_cell = Arc::new(std::sync::atomic::AtomicU32::new(u32::MAX));
    if early
    {
        let keys: Vec<KeyR> = SENTINEL_KEYS.iter().map(|k| match *k {
            Key::Broadcast(t) => KeyR::Broadcast(t), Key::AnyEntityEvent(t) => KeyR::AnyEntityEvent(t), Key::ResourceMutation(r) => KeyR::ResourceMutation(r),
            Key::Insertion(c) => KeyR::Insertion(c), Key::Mutation(c) => KeyR::Mutation(c), Key::Removal(c) => KeyR::Removal(c), _ => unreachable!(),
        }).collect();
        app.add_reactor(DynBundle::new(&keys), sentinel_system(sentinel_cell.clone()));
    }
    // ... and in half of those a revokable (reference-counted) one through `World::react`, which the first call made possible
    let early2 = early && program.setup.n_entities % 4 == 0;
    let sentinel2_cell = Arc::new(std::sync::atomic::AtomicU32::new(u32::MAX));
    let mut sentinel2_token: Option<RevokeToken> = None;
    if early2
    {
        let keys = [KeyR::Broadcast(1), KeyR::ResourceMutation(1)];
        let sys = sentinel_system(sentinel2_cell.clone());
        sentinel2_token = Some(app.world_mut().react(|rc| rc.on_revokable(Shaped::new(DynBundle::new(&keys)), sys)));
    }
    app.add_plugins(ReactPlugin);
    app.insert_react_resource(RA(0));
    app.insert_react_resource(RB(0));
    app.add_systems(Update, slot_sys::<0>);
    app.add_systems(Last, slot_sys::<1>.before(AutoDespawnSet));
    app.add_systems(Last, slot_sys::<2>.after(AutoDespawnSet).before(schedule_removal_and_despawn_reactors));
    app.add_systems(Last, slot_sys::<3>.after(schedule_removal_and_despawn_reactors));
    let world = app.world_mut();

    // entities
    let n = program.setup.n_entities.max(1) as usize;
    let mut pool = Vec::new();
    for _ in 0..n { pool.push(world.spawn_empty().id()); }
    with_case(|case| {
        for (i, e) in pool.iter().enumerate() { case.ent_index.insert(*e, EntRef::Pool(i as u8)); }
        case.pool = pool.clone();
        case.templates = program.setup.templates.iter().cloned().map(Arc::new).collect();
    });
    let mut pairs: Vec<(u8, u8)> = Vec::new();
    for (child, parent) in program.setup.hierarchy.iter()
    {
        let (c, p) = (*child as usize % n, *parent as usize % n);
        if p < c && !pairs.iter().any(|x| x.0 == c as u8) { world.entity_mut(pool[c]).set_parent(pool[p]); pairs.push((c as u8, p as u8)); }
    }
    push(Ev::Hierarchy(pairs));
    for (i, (ca, cb)) in program.setup.comps.iter().enumerate()
    {
        if i >= n { break; }
        let e = pool[i];
        if let Some(v) = ca { let v = *v; world.react(|rc| rc.insert(e, CA(v))); }
        if let Some(v) = cb { let v = *v; world.react(|rc| rc.insert(e, CB(v))); }
    }

    // pool systems
    for (i, def) in program.setup.systems.iter().enumerate()
    {
        let def = Arc::new(def.clone());
        let uid = with_case(|case| case.add_system(def.clone(), None, Some(i as u8), None));
        // every way of spawning a persistent system command
        let cmd = match i % 4
        {
            0 => with_sys!(def, uid, |s| world.spawn_system_command(s)),
            1 => with_sys!(def, uid, |s| bevy_cobweb::prelude::spawn_system_command(world, s)),
            2 => { let cmd = with_sys!(def, uid, |s| world.commands().spawn_system_command(s)); world.flush(); cmd }
            _ => with_sys!(def, uid, |s| spawn_system_command_from(world, SystemCommandCallback::new(s))),
        };
        with_case(|case| case.bind_system_entity(uid, *cmd));
    }

    {
        // the system command exclusive bodies run directly mid-body (never registered, never named by generated ops)
        let def = Arc::new(SysDef{ shape: Shape::Full, result: ResKind::Unit, reg_mode: RegMode::Persistent, scripts: Vec::new() });
        let uid = with_case(|case| case.add_system(def.clone(), None, None, None));
        let cmd = app.world_mut().spawn_system_command(full_system::<()>(uid));
        with_case(|case| { case.bind_system_entity(uid, *cmd); case.mid_probe = Some((uid, *cmd)); });
    }
    if let Some(token) = sentinel2_token
    {
        let def = Arc::new(SysDef{ shape: Shape::Minimal, result: ResKind::Unit, reg_mode: RegMode::Revokable, scripts: Vec::new() });
        let uid = with_case(|case| case.add_system(def.clone(), None, None, None));
        sentinel2_cell.store(uid as u32, std::sync::atomic::Ordering::Relaxed);
        let cmd: SystemCommand = token.clone().into();
        let keys = vec![Key::Broadcast(1), Key::ResourceMutation(1)];
        let slot = with_case(|case| { case.bind_system_entity(uid, *cmd); case.tokens.len() as u16 });
        record_token(token, uid, keys.clone());
        let world = app.world_mut();
        let resolved = Resolved::Register{ sys: uid, mode: RegMode::Revokable, api: RegApi::OnRevokable, keys: keys.clone(), token: Some(slot) };
        let op = Op::Register{ target: RegTarget::Fresh{ template: 0, api: FreshApi::OnRevokable }, bundle: keys };
        let facts = take_facts(world);
        make_visible(&resolved);
        push(Ev::Op{ sender: Sender::Top(u32::MAX), idx: 0, op, resolved, facts });
        let facts = take_facts(world);
        push(Ev::OpDone{ sender: Sender::Top(u32::MAX), idx: 0, facts });
    }
    if early
    {
        let def = Arc::new(SysDef{ shape: Shape::Minimal, result: ResKind::Unit, reg_mode: RegMode::Persistent, scripts: Vec::new() });
        let uid = with_case(|case| case.add_system(def.clone(), None, None, None));
        sentinel_cell.store(uid as u32, std::sync::atomic::Ordering::Relaxed);
        let world = app.world_mut();
        let all = verif_system_commands(world);
        with_case(|case| {
            let unknown: Vec<Entity> = all.into_iter().filter(|e| !case.ent_index.contains_key(e)).collect();
            if unknown.len() == 1 { case.bind_system_entity(uid, unknown[0]); }
        });
        let resolved = Resolved::Register{ sys: uid, mode: RegMode::Persistent, api: RegApi::OnPersistent, keys: SENTINEL_KEYS.to_vec(), token: None };
        let op = Op::Register{ target: RegTarget::Fresh{ template: 0, api: FreshApi::OnPersistent }, bundle: SENTINEL_KEYS.to_vec() };
        let facts = take_facts(world);
        make_visible(&resolved);
        push(Ev::Op{ sender: Sender::Top(u32::MAX), idx: 0, op, resolved, facts });
        let facts = take_facts(world);
        push(Ev::OpDone{ sender: Sender::Top(u32::MAX), idx: 0, facts });
    }
    {
        let d = app.world().resource::<AutoDespawner>().clone();
        with_case(|case| case.despawner = Some(d));
    }
    verif_set_sink(Box::new(forward_hook));
    quiescent(app.world_mut(), 0);
    // in a third of the programs a sibling App on the same thread works between the top-level ops
    let mut sibling = if program.setup.n_entities % 3 == 0 { Some(Sibling::new()) } else { None };

    for (i, top) in program.top.iter().enumerate()
    {
        let i = i as u32;
        if let Some(s) = sibling.as_mut() { s.work(); }
        push(Ev::TopBegin(i));
        let mut frame_ran = false;
        match top.via
        {
            Via::Commands =>
            {
                let world = app.world_mut();
                let mut c = world.commands();
                queue_op(&mut c, Sender::Top(i), 0, &top.op, None);
                world.flush();
            }
            Via::Direct => direct_op(app.world_mut(), Sender::Top(i), &top.op),
            Via::System(slot) =>
            {
                PENDING_SLOT_OPS.with(|p| p.borrow_mut().push((slot % 4, i, top.op.clone())));
                app.update();
                frame_ran = true;
            }
        }
        push(Ev::TopEnd(i));
        quiescent(app.world_mut(), 1);
        if frame_ran
        {
            // the frame's own `Last` systems did the end-of-frame work; an op placed after the poll is due by the
            // end of the next frame
            if matches!(top.via, Via::System(s) if s % 4 == 3)
            {
                push(Ev::SettleBegin(i));
                app.update();
                push(Ev::SettleEnd(i));
            }
            quiescent(app.world_mut(), 3);
        }
        else if top.settle
        {
            push(Ev::SettleBegin(i));
            if top.update { app.update(); } else { settle_manual(app.world_mut()); }
            push(Ev::SettleEnd(i));
            quiescent(app.world_mut(), if top.update { 3 } else { 2 });
        }
    }
    // final settle (always)
    let last = program.top.len() as u32;
    push(Ev::SettleBegin(last));
    settle_manual(app.world_mut());
    push(Ev::SettleEnd(last));
    quiescent(app.world_mut(), 2);

    with_case(|case| case.active = false);
    verif_clear_sink();
    drop(app);
}

/// A `tracing` subscriber that enables everything and records nothing.
pub struct AllOn;

impl tracing::Subscriber for AllOn
{
    fn enabled(&self, _: &tracing::Metadata<'_>) -> bool { true }
    fn new_span(&self, _: &tracing::span::Attributes<'_>) -> tracing::span::Id { tracing::span::Id::from_u64(1) }
    fn record(&self, _: &tracing::span::Id, _: &tracing::span::Record<'_>) {}
    fn record_follows_from(&self, _: &tracing::span::Id, _: &tracing::span::Id) {}
    fn event(&self, _: &tracing::Event<'_>) {}
    fn enter(&self, _: &tracing::span::Id) {}
    fn exit(&self, _: &tracing::span::Id) {}
}

/// Runs one program in a fresh world on the current thread and returns its trace.
pub fn run_program(program: &Program, budget: u32) -> RunOutput
{
    with_case(|case| {
        *case = Case::default();
        case.active = true;
        case.budget = budget;
    });
    // in a quarter of the programs a `tracing` subscriber that enables every level is current on this thread: log statements
    // (and the expressions in their fields) are evaluated, which must not change what the framework does
    let result = if program.top.len() % 4 == 3
    {
        tracing::subscriber::with_default(AllOn, || std::panic::catch_unwind(std::panic::AssertUnwindSafe(|| run_inner(program))))
    }
    else { std::panic::catch_unwind(std::panic::AssertUnwindSafe(|| run_inner(program))) };
    verif_clear_sink();
    if let Err(payload) = result
    {
        let msg = if let Some(s) = payload.downcast_ref::<&str>() { s.to_string() }
            else if let Some(s) = payload.downcast_ref::<String>() { s.clone() }
            else { "panic".to_string() };
        with_case(|case| { case.active = true; });
        push(Ev::Panic(msg));
    }
    with_case(|case| {
        case.active = false;
        let trace = std::mem::take(&mut case.trace);
        let skipped = case.skipped.iter().map(|(k, v)| (*k, *v)).collect();
        RunOutput{ trace, over_budget: case.over_budget, skipped }
    })
}

/// Silences panic output of generated cases (installed once per process).
pub fn install_quiet_panic_hook()
{
    use std::sync::Once;
    static ONCE: Once = Once::new();
    ONCE.call_once(|| {
        let default = std::panic::take_hook();
        std::panic::set_hook(Box::new(move |info| {
            if std::env::var_os("VERIF_SHOW_PANICS").is_some() { default(info); }
        }));
    });
}
