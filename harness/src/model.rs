//! Reference model + per-property oracles of the `tree` engine.
//!
//! The checker makes one pass over the case trace. It reconstructs the registration table, reference counts,
//! entity/system liveness, outstanding deliveries and payloads from *applied ops, facts and framework hook events*
//! and compares them with what the framework did (which commands it applied, which runs happened, what the runs
//! read, when payloads / system states were dropped, what the bookkeeping looks like at quiescent points).

use std::collections::{BTreeMap, HashMap, HashSet};

use crate::program::*;
use crate::universe::*;

#[derive(Debug, Clone)]
pub struct Violation
{
    pub prop: &'static str,
    pub msg: String,
    pub pos: usize,
}

/// Non-triviality classes observed in a case (label -> count), per property.
#[derive(Debug, Clone, Default)]
pub struct Classes
{
    pub map: BTreeMap<&'static str, u32>,
}

impl Classes
{
    pub fn hit(&mut self, label: &'static str) { *self.map.entry(label).or_default() += 1; }
    pub fn has(&self, label: &str) -> bool { self.map.get(label).copied().unwrap_or(0) > 0 }
}

#[derive(Debug, Clone, Default)]
pub struct Report
{
    pub violations: Vec<Violation>,
    /// model divergences that are not attributable to a property (harness / model defect or basic effect changed)
    pub internal: Vec<String>,
    pub classes: Classes,
    pub runs: u32,
    pub deliveries: u32,
    pub max_depth: u32,
    pub events: u32,
}

impl Report
{
    pub fn violates(&self, prop: &str) -> bool { self.violations.iter().any(|v| v.prop == prop) }
}

#[derive(Debug, Clone, Copy, PartialEq, Eq, PartialOrd, Ord)]
enum DStatus
{
    Applied,
    Entered,
    Postponed,
    Started,
    Ran,
    Aborted,
    Discarded,
}

#[derive(Debug, Clone)]
struct Delivery
{
    id: u64,
    sys: Option<SysUid>,
    kind: HookKind,
    exp: Vec<Item>,
    sender: Option<Sender>,
    status: DStatus,
    payload: Option<u32>,
    blocker: Option<RunId>,
    run: Option<RunId>,
    apply_pos: usize,
    /// a despawn reaction holds one clone of the reactor's arc until it is over
    holds_arc: Option<usize>,
    body_done: bool,
    polled: bool,
    /// some run has read this delivery's data (observational, independent of which command ran)
    data_consumed: bool,
}

impl Delivery
{
    fn terminal(&self) -> bool
    {
        matches!(self.status, DStatus::Ran | DStatus::Aborted | DStatus::Discarded)
    }
    /// the payload share of this delivery has been released (or is about to be, right after the body)
    fn released(&self) -> bool
    {
        self.body_done || matches!(self.status, DStatus::Aborted | DStatus::Discarded | DStatus::Ran)
    }
}

#[derive(Debug, Clone)]
struct Run
{
    sys: SysUid,
    delivery: Option<u64>,
    body_end: bool,
    flush_end: bool,
    next_op: u16,
    reacting: bool,
    depth: u32,
    /// an exclusive run that applied something directly mid-body: its parked cleanup ran at that point
    mid_flushed: bool,
}

#[derive(Debug, Clone)]
struct Sys
{
    shape: Shape,
    pool: bool,
    alive: bool,
    entity_known: bool,
    persistent: bool,
    registered: bool,
    once: bool,
    arc: Option<usize>,
    runs: u32,
    open_runs: Vec<RunId>,
    canary_dropped: bool,
    manually_despawned: bool,
    postponed_runs: u32,
    trees_with_runs: HashSet<u32>,
    lost_by: HashSet<&'static str>,
    fired_keys: u32,
    n_keys: u32,
    /// the system's entity has been spawned and carries its callback storage
    ready: bool,
    /// trace position of the last change-detection baseline of this system (None: never sampled)
    baseline: Option<usize>,
    /// exclusive systems: trace position at which the previous run's flush ended (Bevy records an exclusive system's
    /// last-run tick after its flush)
    baseline_excl: Option<usize>,
}

#[derive(Debug, Clone)]
struct Reg
{
    sys: SysUid,
    key: Key,
    arc: Option<usize>,
    /// still stored in a framework table
    in_table: bool,
    /// despawn registration whose entity died but which has not been polled yet
    in_flight: bool,
    token: Option<u16>,
}

#[derive(Debug, Clone)]
struct ArcM
{
    sys: SysUid,
    count: i32,
    doomed: bool,
    collected: bool,
    /// the last trigger disappeared in the middle of a collection pass (a collected entity owned the handle): that
    /// pass or the next one may collect the reactor - both are "the first collection after"
    grace: bool,
}

#[derive(Debug, Clone)]
struct PayloadM
{
    deliveries: Vec<u64>,
    dropped: bool,
    tree: u32,
    bracket_open: bool,
    taken: bool,
}

#[derive(Debug, Clone)]
struct RemovalEv
{
    ent: u8,
    live_at_removal: HashSet<usize>,
    /// the op (sender, trace position) that caused the removal, if it was a generated op
    cause: Option<(Sender, usize)>,
}

#[derive(Debug, Clone)]
enum Frame
{
    Bracket
    {
        sender: Sender,
        idx: u16,
        op: Op,
        resolved: Resolved,
        /// expected systems of the commands applied directly inside (None: not a trigger)
        expected: Option<Vec<SysUid>>,
        /// alternative accepted expectation (behaviour left open, e.g. dead named entity)
        alt: Option<Vec<SysUid>>,
        kind: Option<HookKind>,
        exp_item: Option<Item>,
        payload: Option<u32>,
        observed: Vec<Option<SysUid>>,
        facts: Facts,
        probes: u32,
        revoked_key: bool,
    },
    Runner{ id: u64, finished: bool },
    Poll
    {
        allowed: HashMap<(SysUid, Item), i32>,
        required: HashMap<(SysUid, Item), i32>,
        observed: HashMap<(SysUid, Item), i32>,
        n_events: u32,
        /// per component: the entities of the removal events this poll handles, in the order they happened
        order: [Vec<u8>; 2],
        /// per (system, component): index of the removal event its latest reaction belongs to
        progress: HashMap<(SysUid, u8), usize>,
        /// who caused the event behind a required reaction (the run and the position of the op)
        causes: HashMap<(SysUid, Item), (Sender, usize)>,
    },
}

struct RunSysOnly
{
    sys: SysUid,
}

pub struct Checker
{
    rep: Report,
    pos: usize,
    tree: u32,
    in_tree: bool,
    systems: Vec<Sys>,
    regs: Vec<Reg>,
    arcs: Vec<ArcM>,
    tokens: HashMap<u16, (SysUid, Vec<Key>)>,
    ent_alive: Vec<bool>,
    comp: Vec<[bool; 2]>,
    deliveries: HashMap<u64, Delivery>,
    runs: HashMap<RunId, Run>,
    run_stack: Vec<RunId>,
    frames: Vec<Frame>,
    payloads: HashMap<u32, PayloadM>,
    pending_start: Option<u64>,
    last_apply: Option<u64>,
    pending_removals: [Vec<RemovalEv>; 2],
    tracked: [bool; 2],
    removal_history: HashMap<(u8, u8), u32>,
    dead_unpolled: Vec<u8>,
    queued_despawn: Vec<(SysUid, u8, Option<usize>)>,
    has_tracker: HashSet<u8>,
    extras: Option<i64>,
    revoked_keys_in_tree: HashSet<Key>,
    revoked_keys_ever: HashSet<(SysUid, Key)>,
    stale_in_tree: bool,
    tree_had_incident: bool,
    prev_tree_incident: bool,
    in_gc: bool,
    strict: bool,
    /// system of the run that began last (change samples follow their RunBegin immediately)
    last_begun: Option<SysUid>,
    /// delivery of an exclusive run whose parked cleanup will run at the next world flush (the next poll)
    pending_mid_cleanup: Option<u64>,
    /// the generated op whose effects are being applied to the model right now
    cur_cause: Option<(Sender, usize)>,
    /// dead, not yet polled entity -> the op that despawned it
    despawn_cause: HashMap<u8, (Sender, usize)>,
    /// reactions a poll owed to a system and did not deliver, with the cause of the event (C12: they were sent first)
    missed_polled: Vec<(SysUid, Item, (Sender, usize))>,
    /// parent of each pool entity (fixed hierarchy)
    parent: Vec<Option<u8>>,
    /// pool entities whose auto-despawn signal has been dropped: the next garbage collection despawns them
    ent_doomed: HashSet<u8>,
    /// who dropped the last auto-despawn signal of a doomed pool entity (the run and the position of the op): the
    /// despawn the next collection performs was caused there
    doom_cause: HashMap<u8, (Sender, usize)>,
    excl_made: u32,
    excl_created: u32,
    /// doomed in the middle of a collection pass: that pass or the next one may take them
    ent_grace: HashSet<u8>,
    /// reactors / pool entities a collection pass should have despawned and did not (pending despawn requests)
    overdue_reactors: Vec<SysUid>,
    overdue_entities: Vec<u8>,
    /// payload id -> pool entity whose auto-despawn signal the payload owns
    payload_carries: HashMap<u32, u8>,
    /// trace position of the last applied mutation of RA / RB
    last_res_mut: [Option<usize>; 2],
}

fn key_item_kind(key: Key) -> &'static str
{
    match key
    {
        Key::Broadcast(_) => "broadcast",
        Key::AnyEntityEvent(_) | Key::EntityEvent(..) => "entity_event",
        Key::Insertion(_) | Key::EntityInsertion(..) => "insertion",
        Key::Mutation(_) | Key::EntityMutation(..) => "mutation",
        Key::Removal(_) | Key::EntityRemoval(..) => "removal",
        Key::ResourceMutation(_) => "resource",
        Key::Despawn(_) => "despawn",
    }
}

impl Checker
{
    pub fn new() -> Self
    {
        Checker{
            rep: Report::default(),
            pos: 0,
            tree: 0,
            in_tree: false,
            systems: Vec::new(),
            regs: Vec::new(),
            arcs: Vec::new(),
            tokens: HashMap::new(),
            ent_alive: Vec::new(),
            comp: Vec::new(),
            deliveries: HashMap::new(),
            runs: HashMap::new(),
            run_stack: Vec::new(),
            frames: Vec::new(),
            payloads: HashMap::new(),
            pending_start: None,
            last_apply: None,
            pending_removals: [Vec::new(), Vec::new()],
            tracked: [false, false],
            removal_history: HashMap::new(),
            dead_unpolled: Vec::new(),
            queued_despawn: Vec::new(),
            has_tracker: HashSet::new(),
            extras: None,
            revoked_keys_in_tree: HashSet::new(),
            revoked_keys_ever: HashSet::new(),
            stale_in_tree: false,
            tree_had_incident: false,
            prev_tree_incident: false,
            in_gc: false,
            strict: true,
            last_begun: None,
            pending_mid_cleanup: None,
            cur_cause: None,
            despawn_cause: HashMap::new(),
            missed_polled: Vec::new(),
            parent: Vec::new(),
            ent_doomed: HashSet::new(),
            doom_cause: HashMap::new(),
            excl_made: 0,
            excl_created: 0,
            ent_grace: HashSet::new(),
            overdue_reactors: Vec::new(),
            overdue_entities: Vec::new(),
            payload_carries: HashMap::new(),
            last_res_mut: [None, None],
        }
    }

    fn viol(&mut self, prop: &'static str, msg: String)
    {
        self.rep.violations.push(Violation{ prop, msg: msg.clone(), pos: self.pos });
        if self.stale_in_tree && prop != "C18"
        {
            self.rep.violations.push(Violation{ prop: "C18", msg: format!("[in a tree with a stale reference] {prop}: {msg}"), pos: self.pos });
        }
    }

    /// A violation that concerns system `sys`: one-off reactors also report it under C15.
    fn viol_sys(&mut self, prop: &'static str, sys: Option<SysUid>, msg: String)
    {
        if let Some(s) = sys
        {
            if self.systems.get(s as usize).map(|x| x.once).unwrap_or(false) && prop != "C15"
            {
                self.rep.violations.push(Violation{ prop: "C15", msg: format!("[one-off reactor {s}] {prop}: {msg}"), pos: self.pos });
            }
        }
        self.viol(prop, msg);
    }

    fn internal(&mut self, msg: String)
    {
        if self.rep.internal.len() < 20 { self.rep.internal.push(format!("@{}: {}", self.pos, msg)); }
    }

    fn sys_uid(&self, r: EntRef) -> Option<SysUid>
    {
        match r { EntRef::Sys(u) => Some(u), _ => None }
    }

    fn alive(&self, s: SysUid) -> bool
    {
        self.systems.get(s as usize).map(|x| x.alive).unwrap_or(false)
    }

    //---------------------------------------------------------------------------------------------------------------
    // registration table

    fn matching_regs(&self, pred: impl Fn(&Key) -> bool) -> Vec<usize>
    {
        self.regs.iter().enumerate().filter(|(_, r)| r.in_table && !r.in_flight && pred(&r.key)).map(|(i, _)| i).collect()
    }

    fn drop_reg(&mut self, idx: usize, cause: &'static str)
    {
        if !self.regs[idx].in_table { return; }
        self.regs[idx].in_table = false;
        self.regs[idx].in_flight = false;
        let sys = self.regs[idx].sys;
        self.systems[sys as usize].lost_by.insert(cause);
        if let Some(a) = self.regs[idx].arc { self.dec_arc(a); }
    }

    fn dec_arc(&mut self, a: usize)
    {
        self.arcs[a].count -= 1;
        if self.arcs[a].count == 0 { self.arcs[a].doomed = true; self.arcs[a].grace = false; }
        if self.arcs[a].count < 0 { self.internal(format!("arc {a} count negative")); }
    }

    fn kill_entity(&mut self, e: u8)
    {
        if !self.ent_alive[e as usize] { return; }
        self.ent_alive[e as usize] = false;
        self.ent_doomed.remove(&e);
        // components vanish: removal events
        for c in 0..2u8
        {
            if self.comp[e as usize][c as usize]
            {
                self.comp[e as usize][c as usize] = false;
                self.record_removal(e, c);
            }
        }
        // entity-scoped registrations die with the EntityReactors component; despawn registrations wait for the poll
        for i in 0..self.regs.len()
        {
            if !self.regs[i].in_table { continue; }
            match self.regs[i].key
            {
                Key::Despawn(x) if x == e => { self.regs[i].in_flight = true; }
                k if k.entity() == Some(e) => self.drop_reg(i, "entity_death"),
                _ => {}
            }
        }
        if self.has_tracker.contains(&e)
        {
            self.dead_unpolled.push(e);
            if let Some(c) = self.cur_cause { self.despawn_cause.insert(e, c); }
        }
    }

    /// `despawn_recursive`: every live descendant, then the entity itself (bevy_hierarchy despawns the children first,
    /// in `Children` order, so this is also the order of the removal events).
    fn kill_entity_recursive(&mut self, e: u8)
    {
        let mut order: Vec<u8> = Vec::new();
        fn visit(me: &Checker, e: u8, out: &mut Vec<u8>)
        {
            for c in 0..me.ent_alive.len()
            {
                if me.ent_alive[c] && me.parent.get(c).copied().flatten() == Some(e) && !out.contains(&(c as u8)) { visit(me, c as u8, out); }
            }
            out.push(e);
        }
        visit(self, e, &mut order);
        for x in order { self.ent_doomed.remove(&x); self.kill_entity(x); }
    }

    fn record_removal(&mut self, e: u8, c: u8)
    {
        let live: HashSet<usize> = self.matching_regs(|k| match *k {
            Key::Removal(cc) => cc == c,
            Key::EntityRemoval(ee, cc) => ee == e && cc == c,
            _ => false,
        }).into_iter().collect();
        let cause = self.cur_cause;
        self.pending_removals[c as usize].push(RemovalEv{ ent: e, live_at_removal: live, cause });
        let n = self.removal_history.entry((e, c)).or_default();
        *n += 1;
        if *n >= 2 { self.rep.classes.hit("C08:remove_reinsert_remove"); }
    }

    fn kill_system(&mut self, s: SysUid, manual: bool)
    {
        let sys = &mut self.systems[s as usize];
        if !sys.alive { return; }
        sys.alive = false;
        if manual { sys.manually_despawned = true; }
        if !sys.open_runs.is_empty() { self.rep.classes.hit("C07:dies_while_running"); self.tree_had_incident = true; }
    }

    //---------------------------------------------------------------------------------------------------------------
    // facts

    fn sync_facts(&mut self, facts: &Facts, allow_ent_change: bool)
    {
        if self.ent_alive.is_empty()
        {
            self.ent_alive = facts.ent.iter().map(|f| f.0).collect();
            self.comp = facts.ent.iter().map(|f| [f.1, f.2]).collect();
        }
        for (i, f) in facts.ent.iter().enumerate()
        {
            if allow_ent_change
            {
                if self.ent_alive[i] && !f.0 { self.kill_entity(i as u8); }
                for c in 0..2
                {
                    let has = if c == 0 { f.1 } else { f.2 };
                    if self.ent_alive[i] && self.comp[i][c] && !has { self.comp[i][c] = false; self.record_removal(i as u8, c as u8); }
                }
            }
            if self.ent_alive[i] != f.0
            {
                self.internal(format!("pool entity {i}: model alive={} world alive={}", self.ent_alive[i], f.0));
                self.ent_alive[i] = f.0;
            }
            for c in 0..2
            {
                let has = if c == 0 { f.1 } else { f.2 };
                if self.comp[i][c] != has
                {
                    self.internal(format!("pool entity {i} comp {c}: model {} world {}", self.comp[i][c], has));
                    self.comp[i][c] = has;
                }
            }
        }
        for (u, st) in facts.sys.iter().enumerate()
        {
            if u >= self.systems.len() { break; }
            if *st == 4 || !self.systems[u].ready { continue; }
            self.systems[u].entity_known = true;
            let world_alive = *st != 0;
            if self.systems[u].alive != world_alive
            {
                let msg = format!("system {u}: expected {} but it {} in the world",
                    if self.systems[u].alive { "alive" } else { "despawned" },
                    if world_alive { "exists" } else { "is gone" });
                self.systems[u].alive = world_alive;
                if !world_alive
                {
                    // a system nobody despawned and whose triggers are intact is gone: its private state went with it
                    self.viol_sys("C13", Some(u as SysUid), format!("system {u} should exist but its entity is gone: its system state (locals, captured values) is lost"));
                }
                self.viol_sys("C07", Some(u as SysUid), msg);
            }
            let running = !self.systems[u].open_runs.is_empty();
            if world_alive && ((*st == 2) != running)
            {
                // callback presence must mirror "is executing"
                let msg = format!("system {u}: callback {} while the system {} executing",
                    if *st == 2 { "missing" } else { "present" }, if running { "is" } else { "is not" });
                self.viol("C11", msg);
            }
            if world_alive && *st == 3 { self.viol("C11", format!("system {u} lost its callback storage")); }
        }
    }

    //---------------------------------------------------------------------------------------------------------------

    pub fn check(trace: &[Ev]) -> Report
    {
        let mut c = Checker::new();
        for (i, ev) in trace.iter().enumerate()
        {
            c.pos = i;
            c.step(ev);
        }
        c.rep.events = trace.len() as u32;
        c.rep
    }

    fn step(&mut self, ev: &Ev)
    {
        match ev
        {
            Ev::SysCreated{ shape, pool, .. } =>
            {
                self.systems.push(Sys{
                    shape: *shape, pool: pool.is_some(), alive: true, entity_known: false, persistent: true,
                    registered: false, once: false, arc: None, runs: 0, open_runs: Vec::new(), canary_dropped: false,
                    manually_despawned: false, postponed_runs: 0, trees_with_runs: HashSet::new(),
                    lost_by: HashSet::new(), fired_keys: 0, n_keys: 0, ready: pool.is_some(), baseline: None, baseline_excl: None,
                });
            }
            Ev::Hierarchy(pairs) =>
            {
                let n = pairs.iter().map(|p| p.0.max(p.1) as usize + 1).max().unwrap_or(0).max(self.ent_alive.len());
                self.parent = vec![None; n.max(8)];
                for (c, p) in pairs { self.parent[*c as usize] = Some(*p); }
            }
            Ev::TopBegin(_) | Ev::SettleBegin(_) => self.tree_begin(),
            Ev::TopEnd(_) | Ev::SettleEnd(_) => self.tree_end(),
            Ev::Op{ sender, idx, op, resolved, facts } => self.on_op(*sender, *idx, op, resolved, facts),
            Ev::OpDone{ sender, idx, facts } => self.on_op_done(*sender, *idx, facts),
            Ev::RunBegin{ run, sys, local_n, captured_n, readings, second_take } =>
                self.on_run_begin(*run, *sys, *local_n, Some(*captured_n), readings.as_ref(), *second_take, false),
            Ev::AnonRun{ local_n, readings } =>
            {
                let sys = self.pending_start.and_then(|id| self.deliveries.get(&id)).and_then(|d| d.sys);
                match sys
                {
                    Some(sys) =>
                    {
                        let run = 1_000_000 + self.pos as RunId;
                        self.on_run_begin(run, sys, *local_n, None, Some(readings), None, true);
                    }
                    None => self.viol("C02", "a named-fn system ran without being started by the runner".into()),
                }
            }
            Ev::BodyEnd{ run, readings, err } => self.on_body_end(*run, readings.as_ref(), *err),
            Ev::FlushEnd{ run } => self.on_flush_end(*run),
            Ev::ChangeSample{ changed, resample } => self.on_change_sample(*changed, *resample),
            Ev::WorldChangeSample{ changed } =>
            {
                let Some(sys) = self.last_begun else { self.internal("world change sample without a run".into()); return };
                let base = self.systems[sys as usize].baseline_excl;
                for r in 0..2
                {
                    let want = match (base, self.last_res_mut[r]) { (None, _) => true, (Some(_), None) => false, (Some(b), Some(m)) => m > b };
                    if changed[r] != want
                    {
                        let k = self.systems[sys as usize].runs;
                        self.viol_sys("C13", Some(sys), format!("run {k} of exclusive system {sys}: World change detection reports resource {r} as {}, but it was {} since the system's previous run completed (its last-run tick is part of its private state)",
                            if changed[r] { "changed" } else { "unchanged" }, if want { "mutated" } else { "not mutated" }));
                    }
                    if !want && base.is_some() { self.rep.classes.hit("C13:exclusive_sees_unchanged"); }
                }
            }
            Ev::Probe{ readings, .. } =>
            {
                if !readings.is_empty()
                {
                    self.viol("C04", format!("probe outside any reaction saw event data {:?}", readings));
                }
                if let Some(Frame::Bracket{ probes, .. }) = self.frames.last_mut() { *probes += 1; }
                let reacting_above = self.run_stack.iter().any(|r| self.runs[r].reacting);
                if reacting_above { self.rep.classes.hit("C04:probe_inside_reacting_subtree"); }
            }
            Ev::PayloadDrop(p) => self.on_payload_drop(*p),
            Ev::CanaryDrop(s) => self.on_canary_drop(*s),
            Ev::ExclSystemMade(_) => { self.excl_made += 1; }
            Ev::ExclStateCreated =>
            {
                self.excl_created += 1;
                // C13 "created once": never more parameter states than exclusive systems handed to the framework
                if self.excl_created > self.excl_made
                {
                    self.viol("C13", format!("the parameter state of exclusive systems was constructed {} times although only {} exclusive systems exist: a system's state is created once", self.excl_created, self.excl_made));
                }
            }
            Ev::Quiescent{ phase, snap, facts } => self.on_quiescent(*phase, snap, facts),
            Ev::Hook(h) => self.on_hook(h),
            Ev::Panic(msg) =>
            {
                // The harness only uses non-panicking APIs on legal inputs, so a panic is the framework's. It is a
                // C18 / C02 violation in itself; and since the program could not complete, none of the other
                // properties can hold on this history either (the runs / reactions / releases they require never
                // happen), so every tree check reports it.
                self.stale_in_tree = false;
                self.viol("C18", format!("panic: {msg}"));
                self.viol("C02", format!("panic: {msg}"));
                for p in ["C01", "C03", "C04", "C05", "C06", "C07", "C08", "C09", "C11", "C12", "C13", "C15"]
                {
                    self.viol(p, format!("the framework panicked, the program could not complete: {msg}"));
                }
            }
        }
    }

    //---------------------------------------------------------------------------------------------------------------
    // trees

    fn tree_begin(&mut self)
    {
        self.in_tree = true;
        self.tree += 1;
        self.revoked_keys_in_tree.clear();
        self.stale_in_tree = false;
        self.prev_tree_incident = self.tree_had_incident;
        self.tree_had_incident = false;
    }

    fn tree_end(&mut self)
    {
        self.missed_polled.clear();
        if !self.frames.is_empty()
        {
            self.viol("C09", format!("tree ended with {} open frames", self.frames.len()));
            self.frames.clear();
        }
        if !self.run_stack.is_empty()
        {
            self.viol("C02", format!("tree ended while runs {:?} were still open", self.run_stack));
            self.run_stack.clear();
        }
        let mut open: Vec<(u64, Option<SysUid>, DStatus)> = self.deliveries.values()
            .filter(|d| !d.terminal()).map(|d| (d.id, d.sys, d.status)).collect();
        open.sort();
        for (id, sys, st) in open
        {
            self.viol_sys("C02", sys, format!("delivery {id} to system {:?} is still {:?} when the tree's flush returned", sys, st));
            if sys.map(|s| self.alive(s)).unwrap_or(false)
            {
                if let Some(d) = self.deliveries.get(&id).cloned() { self.lost_reaction(&d, "never ran in its tree"); }
                // C12: the target processes everything one run sent it
                if let Some(d) = self.deliveries.get(&id).cloned()
                {
                    if let Some(sender) = d.sender
                    {
                        let siblings = self.deliveries.values().filter(|x| x.id != id && x.sys == d.sys && x.sender == Some(sender)).count();
                        if siblings >= 1
                        {
                            self.viol_sys("C12", sys, format!("delivery {id} (one of {} deliveries of sender {:?} to system {:?}) was never processed by its target", siblings + 1, sender, sys));
                        }
                    }
                }
                // C09: every command runs in-line (or, postponed, right after its blocker) - not at all is neither
                self.viol_sys("C09", sys, format!("delivery {id} to the live system {:?} neither ran in-line nor after a blocker: it is still {:?} when the tree's flush returned", sys, st));
            }
            if let Some(d) = self.deliveries.get_mut(&id) { d.status = DStatus::Discarded; }
        }
        let tree = self.tree;
        let mut late: Vec<u32> = self.payloads.iter().filter(|(_, p)| p.tree == tree && !p.dropped).map(|(id, _)| *id).collect();
        late.sort();
        for p in late
        {
            self.viol("C05", format!("payload {p} was not released by the end of its reaction tree"));
            if let Some(pm) = self.payloads.get_mut(&p) { pm.dropped = true; }
        }
        // C09: a polled despawn reaction runs at a system-command boundary of the same tree: whatever a poll of this
        // tree took out of the table has been applied by the end of the tree
        if !self.queued_despawn.is_empty()
        {
            let stuck: Vec<(SysUid, u8)> = self.queued_despawn.iter().map(|q| (q.0, q.1)).collect();
            self.viol("C09", format!("despawn reactions (system, entity) {:?} were due at a poll of this tree but did not run at any boundary of the tree", stuck));
            self.viol("C08", format!("despawn reactions (system, entity) {:?} were due at a poll of this tree but did not run by its end", stuck));
            self.viol("C11", format!("despawn reactions (system, entity) {:?} are still waiting to run when the tree's flush returns", stuck));
        }
        let still: Vec<SysUid> = std::mem::take(&mut self.overdue_reactors).into_iter().filter(|s| self.alive(*s)).collect();
        let still_e: Vec<u8> = std::mem::take(&mut self.overdue_entities).into_iter().filter(|e| self.ent_alive[*e as usize]).collect();
        if !still.is_empty() || !still_e.is_empty()
        {
            let msg = format!("despawn requests for reactors {:?} / entities {:?} were passed over by a collection of this tree and are still pending when its flush returns", still, still_e);
            self.viol("C11", msg.clone());
            self.viol("C02", msg);
        }
        if self.tree_had_incident { self.rep.classes.hit("C11:tree_with_incident"); }
        if self.prev_tree_incident { self.rep.classes.hit("C11:tree_after_incident_tree"); }
        self.in_tree = false;
        self.stale_in_tree = false;
    }

    //---------------------------------------------------------------------------------------------------------------
    // ops

    fn on_op(&mut self, sender: Sender, idx: u16, op: &Op, resolved: &Resolved, facts: &Facts)
    {
        // C09 (a): queued order is application order; the sender is the innermost open run
        if let Sender::Run(r) = sender
        {
            match self.run_stack.last().copied()
            {
                Some(top) if top == r =>
                {
                    let run = self.runs.get_mut(&r).unwrap();
                    if !run.body_end { self.viol("C09", format!("command {idx} of run {r} applied before the body returned")); }
                    let run = self.runs.get_mut(&r).unwrap();
                    if run.next_op != idx
                    {
                        let exp = run.next_op;
                        self.viol("C09", format!("run {r}: command {idx} applied, expected command {exp} (queued order)"));
                    }
                    self.runs.get_mut(&r).unwrap().next_op = idx + 1;
                }
                other => self.viol("C09", format!("command {idx} of run {r} applied while run {:?} is innermost", other)),
            }
        }
        if let Sender::Mid(r) = sender
        {
            // a direct application from inside the body of exclusive run r: r is innermost and its body has not ended;
            // the world flush at the start of the runner call runs r's parked cleanup, so r's event is over from here on
            match self.run_stack.last().copied()
            {
                Some(top) if top == r =>
                {
                    if self.runs[&r].body_end { self.internal(format!("mid-body op of run {r} after its body ended")); }
                    self.runs.get_mut(&r).unwrap().mid_flushed = true;
                    if self.runs[&r].reacting { self.rep.classes.hit("C04:manual_run_applied_inside_reacting_exclusive_body"); }
                    // the parked cleanup runs at the first world flush of the nested runner call: in its entry poll,
                    // after its entry collection
                    self.pending_mid_cleanup = self.runs[&r].delivery;
                }
                other => self.internal(format!("mid-body op of run {r} while run {:?} is innermost", other)),
            }
        }
        self.sync_facts(facts, false);

        let mut expected: Option<Vec<SysUid>> = None;
        let mut alt: Option<Vec<SysUid>> = None;
        let mut kind: Option<HookKind> = None;
        let mut exp_item: Option<Item> = None;
        let mut payload: Option<u32> = None;
        let mut revoked_key = false;
        let regs_for = |me: &Checker, pred: &dyn Fn(&Key) -> bool| -> Vec<SysUid> {
            me.matching_regs(|k| pred(k)).into_iter().map(|i| me.regs[i].sys).collect()
        };
        let n_ent = self.ent_alive.len().max(1) as u8;
        let mut trigger_keys: Vec<Key> = Vec::new();

        match (op, resolved)
        {
            (_, Resolved::Skipped(_)) => {}
            (Op::RunSys(_), Resolved::Sys(s)) =>
            {
                expected = Some(vec![*s]);
                kind = Some(HookKind::Manual);
                if !self.alive(*s) { self.stale("C18:run_dead_system"); }
            }
            (Op::RunMany(_, k), Resolved::Sys(s)) =>
            {
                expected = Some(vec![*s; crate::exec::run_many_len(*k) as usize]);
                if *k % 5 >= 3 { self.rep.classes.hit("C02:tree_of_more_than_1000_commands"); }
                kind = Some(HookKind::Manual);
                if !self.alive(*s) { self.stale("C18:run_dead_system"); }
                self.rep.classes.hit("C02:tree_of_more_than_100_commands");
            }
            (Op::SysEvent(_, ty), Resolved::Payload{ id, sys: Some(s), .. }) =>
            {
                expected = Some(vec![*s]);
                kind = Some(HookKind::SystemEvent);
                exp_item = Some(Item::SysEv(*ty, *id));
                payload = Some(*id);
                if !self.alive(*s) { self.stale("C18:event_to_dead_system"); }
            }
            (Op::SysEventToEntity(e, ty), Resolved::Payload{ id, .. }) =>
            {
                // the target is a pool entity, not a system command: the command is aborted (entity gone, or no system
                // stored on it), nothing runs, the payload is released
                let e = *e % n_ent;
                expected = None;
                kind = Some(HookKind::SystemEvent);
                exp_item = Some(Item::SysEv(*ty, *id));
                payload = Some(*id);
                if self.ent_alive[e as usize] { self.stale("C18:event_to_entity_without_system"); } else { self.stale("C18:event_to_dead_entity_as_system"); }
            }
            (Op::Broadcast(ty), Resolved::Payload{ id, .. }) =>
            {
                let ty = *ty;
                expected = Some(regs_for(self, &|k| *k == Key::Broadcast(ty)));
                kind = Some(HookKind::Broadcast);
                exp_item = Some(Item::Bcast(ty, *id));
                payload = Some(*id);
                trigger_keys.push(Key::Broadcast(ty));
            }
            (Op::EntityEvent(e, ty), Resolved::Payload{ id, .. }) =>
            {
                let (e, ty) = (*e % n_ent, *ty);
                let typewide = regs_for(self, &|k| *k == Key::AnyEntityEvent(ty));
                if self.ent_alive[e as usize]
                {
                    let mut all = regs_for(self, &|k| *k == Key::EntityEvent(e, ty));
                    all.extend(typewide);
                    expected = Some(all);
                }
                else
                {
                    // dead named entity: whether type-wide reactors run is left open
                    expected = Some(typewide);
                    alt = Some(Vec::new());
                    self.stale("C18:entity_event_to_dead_entity");
                }
                kind = Some(HookKind::EntityEvent);
                exp_item = Some(Item::EEv(ty, EntRef::Pool(e), *id));
                payload = Some(*id);
                trigger_keys.push(Key::EntityEvent(e, ty));
                trigger_keys.push(Key::AnyEntityEvent(ty));
            }
            (Op::Insert(e, c, _), _) =>
            {
                let (e, c) = (*e % n_ent, *c);
                if self.ent_alive[e as usize]
                {
                    self.comp[e as usize][c as usize] = true;
                    let mut all = regs_for(self, &|k| *k == Key::EntityInsertion(e, c));
                    all.extend(regs_for(self, &|k| *k == Key::Insertion(c)));
                    expected = Some(all);
                }
                else
                {
                    expected = Some(Vec::new());
                    self.stale("C18:insert_on_dead_entity");
                }
                kind = Some(HookKind::Insertion(c));
                exp_item = Some(Item::Ins(c, EntRef::Pool(e)));
                trigger_keys.push(Key::EntityInsertion(e, c));
                trigger_keys.push(Key::Insertion(c));
            }
            (Op::Mutate(e, c), _) =>
            {
                let (e, c) = (*e % n_ent, *c);
                if self.ent_alive[e as usize] && self.comp[e as usize][c as usize]
                {
                    let mut all = regs_for(self, &|k| *k == Key::EntityMutation(e, c));
                    all.extend(regs_for(self, &|k| *k == Key::Mutation(c)));
                    expected = Some(all);
                }
                else
                {
                    expected = Some(Vec::new());
                    if !self.ent_alive[e as usize] { self.stale("C18:mutate_on_dead_entity"); }
                }
                kind = Some(HookKind::Mutation(c));
                exp_item = Some(Item::Mut(c, EntRef::Pool(e)));
                trigger_keys.push(Key::EntityMutation(e, c));
                trigger_keys.push(Key::Mutation(c));
            }
            (Op::TriggerMutation(e, c), _) =>
            {
                let (e, c) = (*e % n_ent, *c);
                let typewide = regs_for(self, &|k| *k == Key::Mutation(c));
                if self.ent_alive[e as usize]
                {
                    let mut all = regs_for(self, &|k| *k == Key::EntityMutation(e, c));
                    all.extend(typewide);
                    expected = Some(all);
                }
                else
                {
                    // an explicit trigger call causes exactly one trigger (C14, C01): type-wide reactors run
                    expected = Some(typewide);
                    self.stale("C18:trigger_mutation_on_dead_entity");
                }
                kind = Some(HookKind::Mutation(c));
                exp_item = Some(Item::Mut(c, EntRef::Pool(e)));
                trigger_keys.push(Key::EntityMutation(e, c));
                trigger_keys.push(Key::Mutation(c));
            }
            (Op::ResMutate(r), _) | (Op::ResTrigger(r), _) =>
            {
                let r = *r;
                if matches!(op, Op::ResMutate(_)) { self.last_res_mut[(r as usize).min(1)] = Some(self.pos); }
                expected = Some(regs_for(self, &|k| *k == Key::ResourceMutation(r)));
                kind = Some(HookKind::Resource);
                trigger_keys.push(Key::ResourceMutation(r));
            }
            (Op::AutoDespawn(e), _) =>
            {
                expected = Some(Vec::new());
                let e = *e % n_ent;
                if self.ent_alive[e as usize]
                {
                    self.ent_doomed.insert(e);
                    self.doom_cause.entry(e).or_insert((sender, self.pos));
                    self.rep.classes.hit("C08:auto_despawn_of_pool_entity");
                }
                else { self.rep.classes.hit("C10:auto_despawn_signal_for_dead_entity"); }
            }
            (Op::Remove(..), _) | (Op::Despawn(..), _) | (Op::Gc, _) | (Op::Poll, _) | (Op::Probe(_), _) =>
            {
                expected = Some(Vec::new());
                if let (Op::Despawn(Target::Sys(_), _), Resolved::Sys(s)) = (op, resolved)
                {
                    if !self.alive(*s) { self.stale("C18:despawn_dead_system"); }
                    else { self.kill_system(*s, true); }
                }
            }
            (Op::Register{ .. }, Resolved::Register{ sys, mode, api, keys, token }) =>
            {
                expected = Some(Vec::new());
                self.on_register(*sys, *mode, *api, keys, *token);
            }
            (Op::Revoke(_), Resolved::Revoke{ token }) =>
            {
                expected = Some(Vec::new());
                self.on_revoke(*token, sender);
            }
            _ => { self.internal(format!("op {:?} with resolution {:?}", op, resolved)); }
        }

        // non-triviality of dispatch
        if let Some(exp) = &expected
        {
            if kind.is_some() && !matches!(kind, Some(HookKind::Manual) | Some(HookKind::SystemEvent))
            {
                let others = self.regs.iter().filter(|r| r.in_table && !trigger_keys.contains(&r.key)).count();
                if exp.len() >= 2 && others >= 1
                {
                    self.rep.classes.hit("C01:multi_listener_with_decoys");
                    if matches!(sender, Sender::Run(_)) { self.rep.classes.hit("C01:multi_listener_inside_tree"); }
                }
                if exp.is_empty() { self.rep.classes.hit("C01:no_listener"); }
                if trigger_keys.iter().any(|k| self.revoked_keys_in_tree.contains(k))
                {
                    revoked_key = true;
                    if !exp.is_empty() && matches!(sender, Sender::Run(_)) { self.rep.classes.hit("C06:trigger_after_revoke_same_tree_with_neighbours"); }
                    else { self.rep.classes.hit("C06:trigger_after_revoke_same_tree"); }
                }
                if payload.is_some() && exp.is_empty() { self.rep.classes.hit("C05:zero_listeners"); }
            }
        }
        if let Resolved::Payload{ id, carries: Some(e), .. } = resolved
        {
            self.payload_carries.insert(*id, *e);
            self.rep.classes.hit("C05:payload_owning_a_signal");
        }
        if let Some(p) = payload
        {
            self.payloads.insert(p, PayloadM{ deliveries: Vec::new(), dropped: false, tree: self.tree, bracket_open: true, taken: false });
        }

        self.frames.push(Frame::Bracket{
            sender, idx, op: op.clone(), resolved: resolved.clone(), expected, alt, kind, exp_item, payload,
            observed: Vec::new(), facts: facts.clone(), probes: 0, revoked_key,
        });
    }

    fn stale(&mut self, label: &'static str)
    {
        self.stale_in_tree = true;
        self.rep.classes.hit(label);
        self.rep.classes.hit("C18:stale_op");
    }

    fn on_register(&mut self, sys: SysUid, mode: RegMode, api: RegApi, keys: &[Key], token: Option<u16>)
    {
        let persistent = mode == RegMode::Persistent;
        if !self.alive(sys) { self.stale("C18:register_on_dead_reactor"); }
        let arc = if persistent { None } else
        {
            self.arcs.push(ArcM{ sys, count: 0, doomed: false, collected: false, grace: false });
            Some(self.arcs.len() - 1)
        };
        {
            let s = &mut self.systems[sys as usize];
            if !persistent { s.persistent = false; s.arc = arc; }
            s.registered = true;
            s.once = api == RegApi::Once;
            s.n_keys += keys.len() as u32;
        }
        let mut effective = 0;
        for key in keys
        {
            if let Key::Removal(c) | Key::EntityRemoval(_, c) = key { self.tracked[*c as usize] = true; }
            let ok = match key.entity() { Some(e) => self.ent_alive[e as usize], None => true };
            if !ok { self.stale("C18:register_on_dead_entity"); continue; }
            if let Key::Despawn(e) = key { self.has_tracker.insert(*e); }
            self.regs.push(Reg{ sys, key: *key, arc, in_table: true, in_flight: false, token });
            effective += 1;
        }
        if let Some(a) = arc
        {
            self.arcs[a].count = effective;
            if effective == 0
            {
                self.arcs[a].doomed = true;
                self.rep.classes.hit("C07:no_effective_trigger");
                if api == RegApi::Once { self.rep.classes.hit("C15:empty_or_dead_bundle"); }
            }
        }
        if let Some(t) = token { self.tokens.insert(t, (sys, keys.to_vec())); }
        match api
        {
            RegApi::Once => self.rep.classes.hit("C15:once_registered"),
            RegApi::On => self.rep.classes.hit("C07:on"),
            RegApi::OnRevokable => self.rep.classes.hit("C07:on_revokable"),
            RegApi::OnPersistent => self.rep.classes.hit("C07:on_persistent"),
            RegApi::With => self.rep.classes.hit("C07:with"),
        }
    }

    fn on_revoke(&mut self, token: u16, sender: Sender)
    {
        let Some((sys, keys)) = self.tokens.get(&token).cloned() else {
            // token recorded at queue time but its registration has not been applied yet: nothing to remove
            self.rep.classes.hit("C06:revoke_before_registration");
            return;
        };
        if !self.alive(sys) { self.stale("C18:revoke_dead_reactor"); }
        let mut removed = 0;
        for key in keys.iter()
        {
            // the first table entry of (sys, key); entity-scoped entries only exist while the entity is alive,
            // despawn entries also while the entity is dead but not polled yet
            let found = self.regs.iter().position(|r| r.in_table && r.sys == sys && r.key == *key && r.token == Some(token));
            if let Some(i) = found
            {
                self.drop_reg(i, "revoke");
                removed += 1;
                self.revoked_keys_in_tree.insert(*key);
                self.revoked_keys_ever.insert((sys, *key));
            }
        }
        if removed == 0 { self.rep.classes.hit("C06:revoke_nothing_left"); }
        else
        {
            self.rep.classes.hit("C06:revoke_effective");
            if matches!(sender, Sender::Run(_)) { self.rep.classes.hit("C06:revoke_inside_tree"); }
        }
    }

    fn on_op_done(&mut self, sender: Sender, idx: u16, facts: &Facts)
    {
        let Some(frame) = self.frames.pop() else {
            self.viol("C09", format!("done-marker of {:?}/{idx} without an open bracket", sender));
            return;
        };
        let Frame::Bracket{ sender: s0, idx: i0, op, resolved, expected, alt, kind, payload, observed, probes, revoked_key, .. } = frame else {
            self.viol("C09", format!("done-marker of {:?}/{idx} while a runner call or poll is still open", sender));
            return;
        };
        if s0 != sender || i0 != idx
        {
            self.viol("C09", format!("done-marker {:?}/{idx} closes bracket {:?}/{i0}", sender, s0));
        }
        // dispatch: exactly the expected systems (as a multiset)
        if let Some(exp) = expected
        {
            let mut obs: Vec<i64> = observed.iter().map(|s| s.map(|x| x as i64).unwrap_or(-1)).collect();
            let mut e1: Vec<i64> = exp.iter().map(|x| *x as i64).collect();
            obs.sort();
            e1.sort();
            let mut ok = obs == e1;
            if !ok
            {
                if let Some(a) = alt
                {
                    let mut e2: Vec<i64> = a.iter().map(|x| *x as i64).collect();
                    e2.sort();
                    ok = obs == e2;
                }
            }
            if !ok
            {
                let prop = match kind { Some(HookKind::Manual) | Some(HookKind::SystemEvent) | None => "C02", _ => "C01" };
                let msg = format!("op {:?}: commands were applied for systems {:?}, expected {:?}", op, obs, e1);
                self.viol(prop, msg.clone());
                if revoked_key || self.involves_revoked(&obs, &e1) { self.viol("C06", msg.clone()); }
                for s in obs.iter().chain(e1.iter())
                {
                    if *s >= 0 && self.systems.get(*s as usize).map(|x| x.once).unwrap_or(false)
                    {
                        self.viol("C15", msg.clone());
                        break;
                    }
                }
            }
        }
        if let Op::Probe(_) = op
        {
            if probes != 1 && !matches!(resolved, Resolved::Skipped(_)) { self.internal(format!("probe op produced {probes} probes")); }
        }
        // an event nobody listens to is dropped immediately
        if let Some(p) = payload
        {
            if let Some(pm) = self.payloads.get_mut(&p)
            {
                pm.bracket_open = false;
                if pm.deliveries.is_empty() && !pm.dropped
                {
                    self.viol("C05", format!("payload {p} had no listener but was not dropped immediately"));
                }
            }
        }
        // plain effects: component removal / despawn are read from the facts
        self.cur_cause = Some((sender, self.pos));
        match (&op, &resolved)
        {
            (Op::Despawn(Target::Sys(_), _), Resolved::Sys(s)) =>
            {
                if facts.sys.get(*s as usize).copied() == Some(0) && self.alive(*s) { self.kill_system(*s, true); }
                self.sync_facts(facts, false);
            }
            (Op::Despawn(Target::Ent(e), rec), _) =>
            {
                let e = *e % (self.ent_alive.len().max(1) as u8);
                if self.ent_alive[e as usize] && facts.ent.get(e as usize).map(|f| !f.0).unwrap_or(false)
                {
                    if *rec { self.kill_entity_recursive(e); } else { self.kill_entity(e); }
                }
                self.sync_facts(facts, true);
            }
            (Op::Remove(..), _) => self.sync_facts(facts, true),
            (Op::Register{ .. }, Resolved::Register{ sys, .. }) =>
            {
                self.systems[*sys as usize].ready = true;
                self.sync_facts(facts, false);
            }
            _ => self.sync_facts(facts, false),
        }
        self.cur_cause = None;
    }

    fn involves_revoked(&self, obs: &[i64], exp: &[i64]) -> bool
    {
        obs.iter().chain(exp.iter()).any(|s| *s >= 0 && self.revoked_keys_ever.iter().any(|(sys, _)| *sys as i64 == *s))
    }

    //---------------------------------------------------------------------------------------------------------------
    // hooks

    fn on_hook(&mut self, h: &Hook)
    {
        match h
        {
            Hook::Apply{ id, kind, sys, source } => self.on_apply(*id, *kind, *sys, *source),
            Hook::Enter{ id, replay, .. } =>
            {
                let id = *id;
                if !self.deliveries.contains_key(&id)
                {
                    self.internal(format!("runner entered for unknown delivery {id}"));
                    self.frames.push(Frame::Runner{ id, finished: false });
                    return;
                }
                let (status, blocker, sys) = { let d = &self.deliveries[&id]; (d.status, d.blocker, d.sys) };
                if *replay
                {
                    if status != DStatus::Postponed
                    {
                        self.viol_sys("C02", sys, format!("delivery {id} replayed although it was {:?}", status));
                    }
                    // C09 (c): replay happens right after the blocking execution finished, inside its runner call
                    // (a polled removal/despawn reaction for the same system may have run in between: its own
                    //  completion then replays the postponed command, still inside the blocker's runner call)
                    let parent_ok = match self.frames.last()
                    {
                        Some(Frame::Runner{ id: pid, finished: true }) =>
                            self.deliveries.get(pid).map(|p| p.sys) == Some(sys) && blocker.is_some(),
                        _ => false,
                    };
                    if !parent_ok
                    {
                        self.viol("C09", format!("postponed delivery {id} was replayed outside the completion of the execution that blocked it"));
                    }
                    if let Some(b) = blocker
                    {
                        if !self.runs.get(&b).map(|r| r.flush_end).unwrap_or(false)
                        {
                            self.viol("C09", format!("postponed delivery {id} replayed before blocking run {b} completed its queued work"));
                        }
                    }
                }
                else
                {
                    if status != DStatus::Applied
                    {
                        self.viol_sys("C02", sys, format!("delivery {id} entered the runner twice ({:?})", status));
                        if let Some(d) = self.deliveries.get(&id).cloned() { self.lost_reaction(&d, "entered the runner a second time"); }
                    }
                    if self.last_apply != Some(id) { self.internal(format!("runner entered for {id}, last applied {:?}", self.last_apply)); }
                }
                self.deliveries.get_mut(&id).unwrap().status = DStatus::Entered;
                self.frames.push(Frame::Runner{ id, finished: false });
            }
            Hook::Abort{ id, reason } =>
            {
                let id = *id;
                let Some(d) = self.deliveries.get(&id).cloned() else { return };
                if d.status != DStatus::Entered { self.viol_sys("C02", d.sys, format!("delivery {id} aborted in state {:?}", d.status)); }
                let target_alive = d.sys.map(|s| self.alive(s)).unwrap_or(false);
                if target_alive
                {
                    self.viol_sys("C02", d.sys, format!("delivery {id} to live system {:?} was aborted ({:?})", d.sys, reason));
                    self.lost_reaction(&d, "was aborted");
                    // C09: a command whose target is executing is postponed and runs after that execution - never dropped;
                    // every other command runs in-line, before the next queued command starts
                    if d.sys.map(|s| !self.systems[s as usize].open_runs.is_empty()).unwrap_or(false)
                    {
                        self.viol_sys("C09", d.sys, format!("delivery {id} to the executing system {:?} was dropped ({:?}) instead of being postponed until that execution completed", d.sys, reason));
                    }
                    else
                    {
                        self.viol_sys("C09", d.sys, format!("delivery {id} to the live, idle system {:?} was dropped ({:?}) instead of running in-line", d.sys, reason));
                    }
                }
                else { self.rep.classes.hit("C02:abort_dead_target"); self.tree_had_incident = true; }
                self.finish_delivery(id, DStatus::Aborted);
            }
            Hook::Postpone{ id } =>
            {
                let id = *id;
                let Some(d) = self.deliveries.get(&id).cloned() else { return };
                if d.status != DStatus::Entered { self.viol_sys("C02", d.sys, format!("delivery {id} postponed in state {:?}", d.status)); }
                let blocker = d.sys.and_then(|s| self.systems[s as usize].open_runs.last().copied());
                if blocker.is_none()
                {
                    self.viol_sys("C02", d.sys, format!("delivery {id} to system {:?} was postponed although that system is not executing", d.sys));
                }
                let already = self.deliveries.values().filter(|x| x.status == DStatus::Postponed && x.sys == d.sys).count();
                if already >= 1 { self.rep.classes.hit("C02:two_postponed_for_one_system"); }
                self.rep.classes.hit("C02:postponed");
                self.tree_had_incident = true;
                if let Some(s) = d.sys { self.systems[s as usize].postponed_runs += 1; }
                let dm = self.deliveries.get_mut(&id).unwrap();
                dm.status = DStatus::Postponed;
                dm.blocker = blocker;
            }
            Hook::Start{ id } =>
            {
                let id = *id;
                let Some(d) = self.deliveries.get(&id).cloned() else { return };
                if d.status != DStatus::Entered { self.viol_sys("C02", d.sys, format!("delivery {id} started in state {:?}", d.status)); }
                if let Some(s) = d.sys
                {
                    if !self.alive(s) { self.viol_sys("C18", Some(s), format!("system {s} was started for delivery {id} although it is gone")); }
                    if !self.systems[s as usize].open_runs.is_empty()
                    {
                        self.viol_sys("C09", Some(s), format!("system {s} started for delivery {id} while it is already executing"));
                    }
                    // C03 class: several deliveries outstanding for this system
                    let out: Vec<&Delivery> = self.deliveries.values()
                        .filter(|x| x.sys == Some(s) && x.id != id && matches!(x.status, DStatus::Applied | DStatus::Entered | DStatus::Postponed))
                        .collect();
                    if !out.is_empty()
                    {
                        self.rep.classes.hit("C03:started_with_other_deliveries_pending");
                        if out.len() >= 2 { self.rep.classes.hit("C03:started_with_2plus_pending"); }
                        if out.iter().any(|x| x.kind != d.kind) { self.rep.classes.hit("C03:pending_mixed_kinds"); }
                    }
                    // C12: a removal / despawn caused earlier by the same run is a reaction-triggering event sent before
                    // this delivery: the target reacts to it first (every runner call polls before it starts its system)
                    if let Some(sender) = d.sender
                    {
                        let mut earlier: Vec<String> = Vec::new();
                        for c in 0..2u8
                        {
                            if !self.tracked[c as usize] { continue; }
                            for ev in self.pending_removals[c as usize].iter()
                            {
                                let Some((es, epos)) = ev.cause else { continue };
                                if es != sender || epos >= d.apply_pos { continue; }
                                let e = ev.ent;
                                let listens = self.regs.iter().any(|r| r.in_table && !r.in_flight && r.sys == s
                                    && (r.key == Key::Removal(c) || r.key == Key::EntityRemoval(e, c)));
                                if listens { earlier.push(format!("removal of component {c} from entity {e}")); }
                            }
                        }
                        for e in self.dead_unpolled.iter()
                        {
                            let Some((es, epos)) = self.despawn_cause.get(e).copied() else { continue };
                            if es != sender || epos >= d.apply_pos { continue; }
                            if self.regs.iter().any(|r| r.in_table && r.in_flight && r.sys == s && r.key == Key::Despawn(*e)) { earlier.push(format!("despawn of entity {e}")); }
                        }
                        for (ms, item, (es, epos)) in self.missed_polled.iter()
                        {
                            if *ms == s && *es == sender && *epos < d.apply_pos && !d.exp.contains(item)
                            {
                                earlier.push(format!("{:?} (the poll before this delivery owed the reaction and did not deliver it)", item));
                            }
                        }
                        if !earlier.is_empty()
                        {
                            self.viol("C12", format!("delivery {id} to system {s} started before the system reacted to earlier events of the same sender {:?}: {}", sender, earlier.join(", ")));
                        }
                    }
                    // C12: deliveries of one sender to one target start in the order sent
                    if let Some(sender) = d.sender
                    {
                        let earlier: Vec<u64> = self.deliveries.values()
                            .filter(|x| x.sys == Some(s) && x.sender == Some(sender) && x.apply_pos < d.apply_pos
                                && matches!(x.status, DStatus::Applied | DStatus::Entered | DStatus::Postponed))
                            .map(|x| x.id).collect();
                        if !earlier.is_empty()
                        {
                            self.viol("C12", format!("delivery {id} to system {s} started before earlier deliveries {:?} from the same sender {:?}", earlier, sender));
                            // C09: commands queued by one run take effect in the order queued (also when postponed)
                            self.viol("C09", format!("command {id} for system {s} took effect before commands {:?} that the same sender {:?} queued earlier for the same system", earlier, sender));
                        }
                        let same: usize = self.deliveries.values()
                            .filter(|x| x.sys == Some(s) && x.sender == Some(sender)).count();
                        if same >= 2
                        {
                            self.rep.classes.hit("C12:two_from_one_sender");
                            let any_post = self.deliveries.values().any(|x| x.sys == Some(s) && x.sender == Some(sender) && x.blocker.is_some());
                            if any_post { self.rep.classes.hit("C12:two_from_one_sender_with_postponed"); }
                            if same >= 3 && any_post { self.rep.classes.hit("C12:three_from_one_sender_with_postponed"); }
                        }
                    }
                }
                self.deliveries.get_mut(&id).unwrap().status = DStatus::Started;
                self.pending_start = Some(id);
            }
            Hook::Finish{ id, .. } =>
            {
                let id = *id;
                let Some(d) = self.deliveries.get(&id).cloned() else { return };
                if d.status != DStatus::Started { self.viol_sys("C02", d.sys, format!("delivery {id} finished in state {:?}", d.status)); }
                match d.run
                {
                    None => self.viol_sys("C02", d.sys, format!("system {:?} was started for delivery {id} but its body did not run", d.sys)),
                    Some(r) =>
                    {
                        if !self.runs[&r].flush_end
                        {
                            self.viol_sys("C02", d.sys, format!("run {r} of system {:?} returned to the runner before its queued commands were applied", d.sys));
                        }
                    }
                }
                self.pending_start = None;
                self.finish_delivery(id, DStatus::Ran);
                match self.frames.last_mut()
                {
                    Some(Frame::Runner{ id: fid, finished }) if *fid == id => *finished = true,
                    _ => self.viol("C09", format!("delivery {id} finished but its runner call is not innermost")),
                }
            }
            Hook::Exit{ id } =>
            {
                let id = *id;
                match self.frames.pop()
                {
                    Some(Frame::Runner{ id: fid, .. }) if fid == id => {}
                    other => { self.viol("C09", format!("runner exit for {id} but innermost frame is {:?}", other.map(|f| frame_name(&f)))); }
                }
                // C08 / C09 / C02: when the outermost runner call of a tree returns, every removal and despawn that has
                // happened so far has been polled (each runner call ends with a collection followed by a poll), so the
                // reactions they cause run inside the tree
                if !self.frames.iter().any(|f| matches!(f, Frame::Runner{ .. }))
                {
                    let mut stuck: Vec<String> = Vec::new();
                    for c in 0..2 { if self.tracked[c] && !self.pending_removals[c].is_empty() { stuck.push(format!("{} removals of component {c}", self.pending_removals[c].len())); } }
                    for e in self.dead_unpolled.iter()
                    {
                        if self.regs.iter().any(|r| r.in_table && r.in_flight && r.key == Key::Despawn(*e)) { stuck.push(format!("the despawn of entity {e}")); }
                    }
                    if !stuck.is_empty()
                    {
                        let msg = format!("the outermost system command of the tree returned while {} had not been polled: their reactions do not run inside the tree", stuck.join(", "));
                        self.viol("C08", msg.clone());
                        self.viol("C09", msg.clone());
                        self.viol("C11", format!("residue after the tree: {msg}"));
                        self.viol("C02", msg);
                    }
                }
                // everything that was blocked by this execution has run (or been dropped because its target died)
                if let Some(run) = self.deliveries.get(&id).and_then(|d| d.run)
                {
                    let stuck: Vec<u64> = self.deliveries.values()
                        .filter(|x| x.blocker == Some(run) && x.status == DStatus::Postponed).map(|x| x.id).collect();
                    for s in stuck
                    {
                        let sys = self.deliveries[&s].sys;
                        self.viol_sys("C09", sys, format!("delivery {s} postponed behind run {run} did not run when that execution completed"));
                        self.viol_sys("C02", sys, format!("delivery {s} postponed behind run {run} did not run when that execution completed"));
                    }
                }
            }
            Hook::Discard{ id, .. } =>
            {
                let id = *id;
                let Some(d) = self.deliveries.get(&id).cloned() else { return };
                let target_alive = d.sys.map(|s| self.alive(s)).unwrap_or(false);
                if target_alive
                {
                    self.viol_sys("C02", d.sys, format!("delivery {id} to live system {:?} was discarded at the end of the tree", d.sys));
                    self.lost_reaction(&d, "was discarded at the end of the tree");
                    if d.status == DStatus::Postponed
                    {
                        self.viol_sys("C09", d.sys, format!("delivery {id}, postponed because system {:?} was executing, was discarded instead of running when that execution completed", d.sys));
                    }
                }
                self.tree_had_incident = true;
                self.finish_delivery(id, DStatus::Discarded);
            }
            Hook::GcBegin => { self.in_gc = true; }
            Hook::Gc{ entity, existed } =>
            {
                match entity
                {
                    EntRef::Sys(s) =>
                    {
                        let s = *s;
                        let arc = self.arcs.iter().rposition(|a| a.sys == s);
                        match arc
                        {
                            Some(a) =>
                            {
                                if !self.arcs[a].doomed && *existed
                                {
                                    self.viol_sys("C07", Some(s), format!("reactor {s} was garbage collected while {} of its triggers are still registered or pending", self.arcs[a].count));
                                    self.viol_sys("C13", Some(s), format!("system {s} was collected although it still has registered triggers: its system state (locals, captured values) is lost while it should live"));
                                    // deliveries waiting for it (postponed behind its own execution, or applied and not yet
                                    // entered) can no longer run although their target should exist
                                    let waiting: Vec<u64> = self.deliveries.values()
                                        .filter(|x| x.sys == Some(s) && matches!(x.status, DStatus::Applied | DStatus::Entered | DStatus::Postponed))
                                        .map(|x| x.id).collect();
                                    if !waiting.is_empty()
                                    {
                                        self.viol_sys("C02", Some(s), format!("system {s} was collected although it still has registered triggers while deliveries {:?} to it are waiting: they cannot run although their target should exist", waiting));
                                    }
                                }
                                self.arcs[a].collected = true;
                            }
                            None =>
                            {
                                if *existed { self.viol_sys("C07", Some(s), format!("system {s} was garbage collected although it was never reference counted")); }
                            }
                        }
                        if *existed { self.kill_system(s, false); }
                    }
                    EntRef::Pool(e) =>
                    {
                        let e = *e;
                        if *existed
                        {
                            if self.ent_doomed.remove(&e)
                            {
                                // automatic despawn: recursive, and it is a despawn like any other for C08; for C12 it was
                                // caused where the last signal was dropped
                                let saved = self.cur_cause;
                                if let Some(c) = self.doom_cause.remove(&e) { self.cur_cause = Some(c); }
                                self.kill_entity_recursive(e);
                                self.cur_cause = saved;
                                self.rep.classes.hit("C08:pool_entity_collected");
                            }
                            else { self.viol("C07", format!("pool entity {e} was garbage collected by the framework although no auto-despawn signal for it was dropped")); }
                        }
                        else { self.ent_doomed.remove(&e); }
                    }
                    EntRef::Other(_) => { self.internal("garbage collection of an unknown entity".into()); }
                }
            }
            Hook::GcEnd =>
            {
                self.in_gc = false;
                let mut late: Vec<u8> = self.ent_doomed.iter().copied().filter(|e| self.ent_alive[*e as usize]).collect();
                late.sort();
                for e in late
                {
                    self.overdue_entities.push(e);
                    self.ent_doomed.remove(&e);
                    self.viol("C08", format!("pool entity {e} lost its last auto-despawn signal but the next garbage collection did not despawn it (its removal / despawn reactions are overdue)"));
                    self.viol("C07", format!("pool entity {e} lost its last auto-despawn signal but the next garbage collection did not despawn it"));
                }
                let missed: Vec<(usize, SysUid)> = self.arcs.iter().enumerate()
                    .filter(|(_, a)| a.doomed && !a.collected).map(|(i, a)| (i, a.sys)).collect();
                for (a, s) in missed
                {
                    // also residue if it is still there when the tree's flush returns (C11), and a reason why
                    // commands reaching it still run it (C02: "zero times if the target is gone")
                    self.overdue_reactors.push(s);
                    self.arcs[a].collected = true;
                    self.viol_sys("C07", Some(s), format!("reactor {s} lost its last trigger but the next garbage collection did not collect it"));
                }
            }
            Hook::PollBegin => self.on_poll_begin(),
            Hook::PollEnd => self.on_poll_end(),
        }
    }

    /// A reaction that was scheduled for a live registration but does not end in exactly one run also breaks the
    /// dispatch property it belongs to: C01 ("exactly one run per live matching registration") for event / insertion /
    /// mutation / resource reactions, C08 for polled removal / despawn reactions.
    fn lost_reaction(&mut self, d: &Delivery, what: &str)
    {
        let prop = match d.kind
        {
            HookKind::Broadcast | HookKind::EntityEvent | HookKind::Insertion(_) | HookKind::Mutation(_) | HookKind::Resource => "C01",
            HookKind::Removal(_) | HookKind::Despawn => "C08",
            _ => return,
        };
        self.viol_sys(prop, d.sys, format!("reaction {} ({:?}) for live reactor {:?} {what}: a matching live registration did not get its one run", d.id, d.kind, d.sys));
    }

    fn finish_delivery(&mut self, id: u64, status: DStatus)
    {
        let Some(d) = self.deliveries.get_mut(&id) else { return };
        d.status = status;
        if let Some(a) = d.holds_arc.take() { self.dec_arc(a); }
    }

    fn on_apply(&mut self, id: u64, kind: HookKind, sys: EntRef, source: Option<EntRef>)
    {
        self.last_apply = Some(id);
        self.rep.deliveries += 1;
        let uid = self.sys_uid(sys);
        let sender_run = self.run_stack.last().copied();
        let mut d = Delivery{
            id, sys: uid, kind, exp: Vec::new(), sender: None, status: DStatus::Applied, payload: None,
            blocker: None, run: None, apply_pos: self.pos, holds_arc: None, body_done: false, polled: false, data_consumed: false,
        };
        let _ = sender_run;
        let mut complaint: Option<(&'static str, String)> = None;
        match self.frames.last_mut()
        {
            Some(Frame::Bracket{ sender, kind: bkind, exp_item, payload, observed, op, .. }) =>
            {
                observed.push(uid);
                d.sender = Some(*sender);
                match bkind
                {
                    Some(k) if *k == kind =>
                    {
                        if let Some(item) = exp_item { d.exp.push(*item); }
                        d.payload = *payload;
                        // the source entity the framework forwards must be the op's
                        let want = match exp_item
                        {
                            Some(Item::EEv(_, e, _)) | Some(Item::Ins(_, e)) | Some(Item::Mut(_, e)) => Some(*e),
                            _ => None,
                        };
                        if want.is_some() && source != want
                        {
                            complaint = Some(("C03", format!("delivery {id}: framework forwards entity {:?}, the op named {:?}", source, want)));
                        }
                    }
                    _ =>
                    {
                        complaint = Some(("C01", format!("a {:?} command for system {:?} was applied inside op {:?}", kind, uid, op)));
                    }
                }
            }
            Some(Frame::Poll{ observed, order, progress, .. }) =>
            {
                d.polled = true;
                // C12: the removals of one component happened in an order; the reactions one system gets for them are
                // queued in that order (several reactions of one system for one removal are adjacent)
                if let (HookKind::Removal(c), Some(EntRef::Pool(e)), Some(u)) = (kind, source, uid)
                {
                    let list = &order[(c as usize).min(1)];
                    let from = progress.get(&(u, c)).copied().unwrap_or(0);
                    match (from..list.len()).find(|j| list[*j] == e)
                    {
                        Some(j) => { progress.insert((u, c), j); }
                        None =>
                        {
                            if list.contains(&e)
                            {
                                complaint = Some(("C12", format!("poll: system {u} gets the reaction to the removal of component {c} from entity {e} after a reaction to a later removal (removals happened in the order {:?})", list)));
                            }
                        }
                    }
                }
                let item = match (kind, source)
                {
                    (HookKind::Removal(c), Some(e)) => Some(Item::Rem(c, e)),
                    (HookKind::Despawn, Some(e)) => Some(Item::Desp(e)),
                    _ => None,
                };
                match (item, uid)
                {
                    (Some(item), Some(u)) =>
                    {
                        *observed.entry((u, item)).or_default() += 1;
                        d.exp.push(item);
                        if let Some(i) = self.missed_polled.iter().position(|m| m.0 == u && m.1 == item) { self.missed_polled.remove(i); }
                    }
                    _ =>
                    {
                        complaint = Some(("C08", format!("a {:?} command (source {:?}) for system {:?} was applied by a removal/despawn poll", kind, source, sys)));
                    }
                }
            }
            _ =>
            {
                complaint = Some(("C09", format!("a {:?} command for system {:?} was applied outside any op or poll", kind, sys)));
            }
        }
        if let Some((p, m)) = complaint { self.viol(p, m); }
        // despawn reactions carry one clone of the reactor's handle
        if kind == HookKind::Despawn
        {
            if let (Some(u), Some(EntRef::Pool(e))) = (uid, source)
            {
                if let Some(i) = self.queued_despawn.iter().position(|q| q.0 == u && q.1 == e)
                {
                    d.holds_arc = self.queued_despawn.remove(i).2;
                }
            }
        }
        if let Some(u) = uid
        {
            if !matches!(kind, HookKind::Manual | HookKind::SystemEvent) { self.systems[u as usize].fired_keys += 1; }
        }
        if let Some(p) = d.payload
        {
            let dropped = self.payloads.get(&p).map(|pm| pm.dropped).unwrap_or(false);
            if dropped { self.viol("C05", format!("payload {p} was dropped before delivery {id} was applied")); }
            if let Some(pm) = self.payloads.get_mut(&p) { pm.deliveries.push(id); }
        }
        self.deliveries.insert(id, d);
    }

    fn on_poll_begin(&mut self)
    {
        if let Some(id) = self.pending_mid_cleanup.take()
        {
            if let Some(d) = self.deliveries.get_mut(&id)
            {
                d.body_done = true;
                if let Some(a) = d.holds_arc.take() { self.dec_arc(a); }
            }
        }
        let mut allowed: HashMap<(SysUid, Item), i32> = HashMap::new();
        let mut required: HashMap<(SysUid, Item), i32> = HashMap::new();
        let mut n_events = 0;
        let mut causes: HashMap<(SysUid, Item), (Sender, usize)> = HashMap::new();
        let mut order: [Vec<u8>; 2] = [Vec::new(), Vec::new()];
        for c in 0..2u8
        {
            if !self.tracked[c as usize] { continue; }
            let events = std::mem::take(&mut self.pending_removals[c as usize]);
            for ev in events
            {
                n_events += 1;
                let e = ev.ent;
                order[c as usize].push(e);
                let live = self.matching_regs(|k| match *k {
                    Key::Removal(cc) => cc == c,
                    Key::EntityRemoval(ee, cc) => ee == e && cc == c,
                    _ => false,
                });
                for i in live
                {
                    let key = (self.regs[i].sys, Item::Rem(c, EntRef::Pool(e)));
                    *allowed.entry(key).or_default() += 1;
                    if ev.live_at_removal.contains(&i)
                    {
                        *required.entry(key).or_default() += 1;
                        if let Some(c) = ev.cause { causes.entry(key).or_insert(c); }
                    }
                }
            }
        }
        let dead = std::mem::take(&mut self.dead_unpolled);
        let despawn_cause = std::mem::take(&mut self.despawn_cause);
        for e in dead
        {
            n_events += 1;
            for i in 0..self.regs.len()
            {
                let r = &self.regs[i];
                if !(r.in_table && r.in_flight && r.key == Key::Despawn(e)) { continue; }
                let key = (r.sys, Item::Desp(EntRef::Pool(e)));
                *allowed.entry(key).or_default() += 1;
                *required.entry(key).or_default() += 1;
                if let Some(c) = despawn_cause.get(&e) { causes.entry(key).or_insert(*c); }
                // the handle moves out of the table into the queued reaction command
                self.queued_despawn.push((r.sys, e, r.arc));
                self.systems[r.sys as usize].lost_by.insert("despawn_fired");
                self.regs[i].in_table = false;
                self.regs[i].in_flight = false;
            }
        }
        if n_events >= 2 { self.rep.classes.hit("C08:two_events_in_one_poll"); }
        if n_events >= 1 { self.rep.classes.hit("C08:poll_with_event"); }
        self.frames.push(Frame::Poll{ allowed, required, observed: HashMap::new(), n_events, order, progress: HashMap::new(), causes });
    }

    fn on_poll_end(&mut self)
    {
        match self.frames.pop()
        {
            Some(Frame::Poll{ allowed, required, observed, causes, .. }) =>
            {
                let mut keys: Vec<(SysUid, Item)> = allowed.keys().chain(observed.keys()).copied().collect();
                keys.sort();
                keys.dedup();
                for k in keys
                {
                    let a = allowed.get(&k).copied().unwrap_or(0);
                    let r = required.get(&k).copied().unwrap_or(0);
                    let o = observed.get(&k).copied().unwrap_or(0);
                    if o < r || o > a
                    {
                        self.viol_sys("C08", Some(k.0), format!("poll: system {} received {o} reactions for {:?}; at least {r} and at most {a} are due", k.0, k.1));
                        if o < r { if let Some(c) = causes.get(&k) { self.missed_polled.push((k.0, k.1, *c)); } }
                        // C06: after a revocation that named the same component (or a despawn key) the registrations it did
                        // not name must keep working
                        if o < r
                        {
                            let related = self.revoked_keys_ever.iter().any(|(_, key)| match (k.1, key)
                            {
                                (Item::Rem(c, _), Key::Insertion(x)) | (Item::Rem(c, _), Key::Mutation(x)) | (Item::Rem(c, _), Key::Removal(x)) => *x == c,
                                (Item::Rem(c, _), Key::EntityInsertion(_, x)) | (Item::Rem(c, _), Key::EntityMutation(_, x)) | (Item::Rem(c, _), Key::EntityRemoval(_, x)) => *x == c,
                                (Item::Desp(_), Key::Despawn(_)) => true,
                                _ => false,
                            });
                            if related
                            {
                                self.viol_sys("C06", Some(k.0), format!("poll: system {} did not get its reaction for {:?} although its registration was never revoked (an earlier revocation named the same component / a despawn key)", k.0, k.1));
                            }
                        }
                    }
                }
            }
            other =>
            {
                self.viol("C09", format!("poll ended but innermost frame is {:?}", other.map(|f| frame_name(&f))));
            }
        }
    }

    //---------------------------------------------------------------------------------------------------------------
    // runs

    fn on_run_begin(&mut self, run: RunId, sys: SysUid, local_n: u32, captured_n: Option<u32>, readings: Option<&Readings>, second_take: Option<bool>, anon: bool)
    {
        self.rep.runs += 1;
        self.last_begun = Some(sys);
        let delivery = self.pending_start;
        let mut exp: Vec<Item> = Vec::new();
        match delivery.and_then(|id| self.deliveries.get(&id).cloned())
        {
            Some(d) if d.sys == Some(sys) && d.run.is_none() =>
            {
                exp = d.exp.clone();
                self.deliveries.get_mut(&d.id).unwrap().run = Some(run);
            }
            Some(d) =>
            {
                self.viol_sys("C02", Some(sys), format!("system {sys} ran (run {run}) but the runner had started delivery {} for system {:?} (already ran: {:?})", d.id, d.sys, d.run));
            }
            None =>
            {
                self.viol_sys("C02", Some(sys), format!("system {sys} ran (run {run}) without a scheduled command"));
            }
        }
        if !self.alive(sys)
        {
            self.viol_sys("C18", Some(sys), format!("system {sys} ran although it has been despawned"));
            self.viol_sys("C02", Some(sys), format!("system {sys} ran although it is gone (a command runs its target zero times if the target is gone)"));
        }
        let k = { let s = &mut self.systems[sys as usize]; s.runs += 1; s.trees_with_runs.insert(self.tree); s.runs };
        // C13: one persistent private state
        if local_n != k || captured_n.map(|c| c != k).unwrap_or(false)
        {
            self.viol_sys("C13", Some(sys), format!("run {k} of system {sys} sees Local={local_n}, captured counter={:?}", captured_n));
        }
        {
            let s = &self.systems[sys as usize];
            if s.runs >= 3 && s.postponed_runs >= 1 && s.trees_with_runs.len() >= 2 { self.rep.classes.hit("C13:three_runs_postponed_and_later_tree"); }
            if s.runs >= 2 { self.rep.classes.hit("C13:second_run"); }
        }
        // C03 / C04: the run sees exactly the data of the event that caused it
        let shape = self.systems[sys as usize].shape;
        if let Some(r) = readings
        {
            let want: Vec<Item> = if shape == Shape::Wrong { Vec::new() } else { exp.clone() };
            let mut got = r.clone();
            got.sort();
            let mut w = want.clone();
            w.sort();
            if got != w
            {
                let missing = w.iter().any(|x| !got.contains(x));
                let extra = got.iter().any(|x| !w.contains(x));
                if missing || (extra && !w.is_empty())
                {
                    self.viol_sys("C03", Some(sys), format!("run {run} of system {sys} (delivery {:?}) read {:?}, its event is {:?}", delivery, got, w));
                    // C12 "each with its own data": one of several deliveries of one sender to this target
                    if let Some(d) = delivery.and_then(|id| self.deliveries.get(&id).cloned())
                    {
                        if let Some(sender) = d.sender
                        {
                            let siblings = self.deliveries.values().filter(|x| x.id != d.id && x.sys == Some(sys) && x.sender == Some(sender)).count();
                            if siblings >= 1
                            {
                                self.viol_sys("C12", Some(sys), format!("run {run} of system {sys} for delivery {} (one of {} deliveries of sender {:?} to it) read {:?}, its own data is {:?}", d.id, siblings + 1, sender, got, w));
                            }
                        }
                    }
                }
                if extra
                {
                    self.viol_sys("C04", Some(sys), format!("run {run} of system {sys} (delivery {:?}) read {:?} but is reacting to {:?}", delivery, got, w));
                    if w.is_empty() { self.viol_sys("C03", Some(sys), format!("run {run} of system {sys} (delivery {:?}) read {:?}, it has no event", delivery, got)); }
                }
            }
        }
        // C12 (observational): the data of deliveries from one sender to one target is consumed in the order sent
        if let Some(r) = readings
        {
            if !r.is_empty() && shape != Shape::Wrong
            {
                let mut got = r.clone();
                got.sort();
                let mut cands: Vec<(usize, u64)> = self.deliveries.values()
                    .filter(|x| x.sys == Some(sys) && !x.data_consumed && { let mut e = x.exp.clone(); e.sort(); e == got })
                    .map(|x| (x.apply_pos, x.id)).collect();
                cands.sort();
                // the started delivery itself if its data is what was read (identical entity reactions are not
                // distinguishable by data), otherwise the oldest delivery with that data
                let own = delivery.and_then(|id| cands.iter().find(|c| c.1 == id).copied());
                if let Some((apos, did)) = own.or(cands.first().copied())
                {
                    self.deliveries.get_mut(&did).unwrap().data_consumed = true;
                    if let Some(sender) = self.deliveries[&did].sender
                    {
                        let earlier: Vec<u64> = self.deliveries.values()
                            .filter(|x| x.sys == Some(sys) && x.sender == Some(sender) && x.apply_pos < apos && !x.data_consumed
                                && !x.exp.is_empty() && !matches!(x.status, DStatus::Aborted | DStatus::Discarded))
                            .map(|x| x.id).collect();
                        if !earlier.is_empty()
                        {
                            self.viol("C12", format!("system {sys} processed the data {:?} of delivery {did} before the data of earlier deliveries {:?} from the same sender {:?}", got, earlier, sender));
                        }
                    }
                }
            }
        }
        if second_take == Some(true)
        {
            self.viol_sys("C04", Some(sys), format!("run {run} of system {sys} took its system event twice"));
        }
        if let Some(id) = delivery
        {
            if let Some(d) = self.deliveries.get(&id)
            {
                if let Some(p) = d.payload
                {
                    if matches!(d.kind, HookKind::SystemEvent) && readings.is_some() && shape != Shape::Wrong
                    {
                        if let Some(pm) = self.payloads.get_mut(&p) { pm.taken = true; }
                    }
                }
            }
        }
        let reacting = !exp.is_empty();
        let depth = self.run_stack.len() as u32 + 1;
        if depth > self.rep.max_depth { self.rep.max_depth = depth; }
        self.runs.insert(run, Run{ sys, delivery, body_end: anon, flush_end: anon, next_op: 0, reacting, depth, mid_flushed: false });
        if anon
        {
            if let Some(id) = delivery { if let Some(d) = self.deliveries.get_mut(&id) { d.body_done = true; } }
            self.once_done(sys);
            return;
        }
        self.run_stack.push(run);
        self.systems[sys as usize].open_runs.push(run);
        if depth >= 3 && self.deliveries.values().any(|d| d.status == DStatus::Postponed)
        {
            self.rep.classes.hit("C09:depth3_with_postponed");
        }
    }

    /// C13: the change-detection baseline is part of a system's private state: a run sees "changed" exactly for
    /// what was mutated since the previous time this system (state) looked.
    fn on_change_sample(&mut self, changed: [bool; 2], resample: bool)
    {
        // the sample at the start of a body belongs to the run that has just begun; the re-sample at the end of an
        // exclusive body belongs to the innermost open run (other runs may have nested inside that body)
        let owner = if resample { self.run_stack.last().and_then(|r| self.runs.get(r)).map(|r| r.sys) } else { self.last_begun };
        let Some(sys) = owner else { self.internal("change sample without a run".into()); return };
        let base = self.systems[sys as usize].baseline;
        for r in 0..2
        {
            let want = match (base, self.last_res_mut[r]) { (None, _) => true, (Some(_), None) => false, (Some(b), Some(m)) => m > b };
            if changed[r] != want
            {
                let k = self.systems[sys as usize].runs;
                self.viol_sys("C13", Some(sys), format!("run {k} of system {sys}{}: change detection reports resource {r} as {}, but it was {} since this system last looked (its change-detection baseline is part of its private state)",
                    if resample { " (at body end)" } else { "" },
                    if changed[r] { "changed" } else { "unchanged" }, if want { "mutated" } else { "not mutated" }));
            }
            if want && base.is_some() && !resample { self.rep.classes.hit("C13:change_detected_across_runs"); }
        }
        self.systems[sys as usize].baseline = Some(self.pos);
    }

    fn on_body_end(&mut self, run: RunId, readings: Option<&Readings>, err: bool)
    {
        let Some(r) = self.runs.get(&run).cloned() else { self.internal(format!("body end of unknown run {run}")); return };
        if self.run_stack.last() != Some(&run) { self.viol("C09", format!("body of run {run} ended while run {:?} is innermost", self.run_stack.last())); }
        let shape = self.systems[r.sys as usize].shape;
        if let (Some(got), Some(id)) = (readings, r.delivery)
        {
            let exp: Vec<Item> = self.deliveries.get(&id).map(|d| d.exp.clone()).unwrap_or_default();
            let mut want: Vec<Item> = if shape == Shape::Wrong || r.mid_flushed { Vec::new() } else { exp.into_iter().filter(|i| !matches!(i, Item::SysEv(..))).collect() };
            want.sort();
            let mut g = got.clone();
            g.sort();
            if g != want
            {
                self.viol_sys("C03", Some(r.sys), format!("at the end of run {run} system {} reads {:?}, its event is {:?}", r.sys, g, want));
                if g.iter().any(|x| !want.contains(x)) { self.viol_sys("C04", Some(r.sys), format!("at the end of run {run} system {} reads {:?} but is reacting to {:?}", r.sys, g, want)); }
            }
        }
        if err { self.rep.classes.hit("C02:erroring_body"); }
        self.runs.get_mut(&run).unwrap().body_end = true;
        if let Some(id) = r.delivery
        {
            if let Some(d) = self.deliveries.get_mut(&id)
            {
                d.body_done = true;
                // the despawn handle is released by the cleanup right after the body
                if let Some(a) = d.holds_arc.take() { self.dec_arc(a); }
            }
        }
    }

    fn on_flush_end(&mut self, run: RunId)
    {
        let Some(r) = self.runs.get(&run).cloned() else { self.internal(format!("flush end of unknown run {run}")); return };
        match self.run_stack.last().copied()
        {
            Some(top) if top == run => { self.run_stack.pop(); }
            other =>
            {
                self.viol("C09", format!("queued commands of run {run} finished while run {:?} is innermost", other));
                self.run_stack.retain(|x| *x != run);
            }
        }
        if !r.body_end { self.viol("C09", format!("commands of run {run} were applied before its body returned")); }
        self.runs.get_mut(&run).unwrap().flush_end = true;
        self.systems[r.sys as usize].open_runs.retain(|x| *x != run);
        self.systems[r.sys as usize].baseline_excl = Some(self.pos);
        self.once_done(r.sys);
    }

    /// The one-off wrapper despawns its entity and revokes its triggers right after its (only) run.
    fn once_done(&mut self, sys: SysUid)
    {
        let r = RunSysOnly{ sys };
        let s = &mut self.systems[sys as usize];
        if s.once
        {
            // the one-off wrapper despawns its entity and revokes its triggers right after the run
            self.rep.classes.hit("C15:once_ran");
            if s.fired_keys >= 2 { self.rep.classes.hit("C15:two_keys_fired"); }
            self.kill_system(r.sys, false);
            for i in 0..self.regs.len()
            {
                if self.regs[i].in_table && self.regs[i].sys == r.sys { self.drop_reg(i, "once_done"); }
            }
        }
    }

    //---------------------------------------------------------------------------------------------------------------
    // drops

    fn on_payload_drop(&mut self, p: u32)
    {
        let Some(pm) = self.payloads.get(&p).cloned() else { self.internal(format!("drop of unknown payload {p}")); return };
        if pm.dropped { self.viol("C05", format!("payload {p} was dropped twice")); return; }
        let mut pending = Vec::new();
        let mut interrupted = false;
        for id in pm.deliveries.iter()
        {
            if let Some(d) = self.deliveries.get(id)
            {
                let taken_now = matches!(d.kind, HookKind::SystemEvent) && d.status == DStatus::Started;
                if !d.released() && !taken_now { pending.push(*id); }
                if matches!(d.status, DStatus::Aborted | DStatus::Discarded) || d.blocker.is_some() { interrupted = true; }
            }
        }
        if !pending.is_empty()
        {
            self.viol("C05", format!("payload {p} was dropped while deliveries {:?} scheduled to read it have not run yet", pending));
        }
        if pm.bracket_open && !pm.deliveries.is_empty() && pending.is_empty() { /* all readers ran in-line */ }
        if pm.deliveries.len() >= 2 && interrupted { self.rep.classes.hit("C05:multi_reader_with_abort_or_postpone"); }
        if pm.deliveries.len() >= 2 { self.rep.classes.hit("C05:multi_reader"); }
        self.payloads.get_mut(&p).unwrap().dropped = true;
        // the payload owned an auto-despawn signal: its entity is doomed from now on
        if let Some(e) = self.payload_carries.get(&p).copied()
        {
            if self.ent_alive.get(e as usize).copied().unwrap_or(false)
            {
                self.ent_doomed.insert(e);
                self.rep.classes.hit("C08:entity_doomed_by_payload_release");
            }
        }
    }

    fn on_canary_drop(&mut self, s: SysUid)
    {
        let Some(sys) = self.systems.get(s as usize).cloned() else { return };
        if sys.canary_dropped { self.viol_sys("C07", Some(s), format!("the state of system {s} was dropped twice")); }
        if sys.alive && sys.entity_known
        {
            // the state may only go away with the system
            self.viol_sys("C13", Some(s), format!("the state of system {s} was dropped although the system still exists"));
            self.viol_sys("C07", Some(s), format!("the state of system {s} was dropped although the system still exists"));
        }
        if !sys.open_runs.is_empty()
        {
            self.viol_sys("C13", Some(s), format!("the state of system {s} was dropped while it is executing"));
        }
        self.systems[s as usize].canary_dropped = true;
        if !sys.entity_known { self.systems[s as usize].alive = false; }
    }

    //---------------------------------------------------------------------------------------------------------------
    // quiescent points

    fn on_quiescent(&mut self, phase: u8, snap: &Snap, facts: &Facts)
    {
        self.sync_facts(facts, false);
        let known_alive = self.systems.iter().filter(|s| s.entity_known && s.alive).count() as i64;
        let pool_alive = self.ent_alive.iter().filter(|a| **a).count() as i64;
        let count = facts.n_entities as i64 - known_alive - pool_alive;
        if phase == 0 { self.extras = Some(count); return; }
        // C11: no residue
        if snap.counter != 0 { self.viol("C11", format!("system command counter is {} between trees", snap.counter)); }
        if snap.buffered != 0 { self.viol("C11", format!("{} postponed commands are left between trees", snap.buffered)); }
        if snap.prepared != [0, 0, 0, 0] { self.viol("C11", format!("pending event metadata between trees: {:?}", snap.prepared)); }
        if snap.reacting != [false; 4]
        {
            self.viol("C11", format!("event readers still marked as reacting between trees: {:?}", snap.reacting));
            self.viol("C04", format!("event readers still marked as reacting between trees: {:?}", snap.reacting));
        }
        if snap.storages_without_callback != 0 { self.viol("C11", format!("{} system commands are missing their system between trees", snap.storages_without_callback)); }
        // C05: no bookkeeping entity outlives the tree
        if snap.data_entities != 0
        {
            self.viol("C05", format!("{} event data entities outlive their tree", snap.data_entities));
            self.viol("C11", format!("{} event data entities (payload + reader bookkeeping) are left between trees", snap.data_entities));
        }
        if let Some(x) = self.extras
        {
            if count != x
            {
                self.viol("C05", format!("{} entities exist that are neither pool entities nor live systems (baseline {x}): bookkeeping leaked", count));
                self.extras = Some(count);
            }
        }
        // C06 / C01: table sizes match the shadow table
        let in_table = self.regs.iter().filter(|r| r.in_table).count() as u32;
        if snap.cache_handles + snap.entity_handles != in_table
        {
            self.viol("C06", format!("the framework stores {} trigger registrations, the history implies {in_table}", snap.cache_handles + snap.entity_handles));
        }
        for (u, n) in snap.regs_of.iter().enumerate()
        {
            if u >= self.systems.len() || !self.systems[u].entity_known { continue; }
            let mine = self.regs.iter().filter(|r| r.in_table && r.sys == u as SysUid).count() as u32;
            if mine != *n
            {
                self.viol_sys("C06", Some(u as SysUid), format!("system {u} is named by {n} stored registrations, the history implies {mine}"));
            }
        }
        if phase == 2 || phase == 3
        {
            // C07: lifetime follows the mode
            for u in 0..self.systems.len()
            {
                let s = self.systems[u].clone();
                if !s.entity_known { continue; }
                let should_live = if s.manually_despawned { false }
                    else if s.once && s.runs > 0 { false }
                    else if let Some(a) = s.arc
                    {
                        // after a frame (no trailing collection) a reactor that lost its last trigger during the
                        // frame's poll is still waiting for the next collection
                        self.arcs[a].count > 0 || (phase == 3 && self.arcs[a].doomed && !self.arcs[a].collected)
                            || (self.arcs[a].doomed && !self.arcs[a].collected && self.arcs[a].grace)
                    }
                    else { true };
                let lives = facts.sys.get(u).map(|x| *x != 0 && *x != 4).unwrap_or(false);
                if should_live != lives
                {
                    self.viol_sys("C07", Some(u as SysUid), format!("after the end-of-frame collection system {u} {} but {}",
                        if lives { "still exists" } else { "is gone" },
                        if should_live { "it still has registered triggers / is persistent" } else { "it has no trigger left" }));
                    if should_live && !lives && s.arc.map(|a| self.arcs[a].count > 0).unwrap_or(true)
                    {
                        self.viol_sys("C13", Some(u as SysUid), format!("system {u} should exist but is gone: its system state (locals, captured values) is lost"));
                    }
                }
                if !lives && !s.canary_dropped && s.shape != Shape::NamedFn
                {
                    self.viol_sys("C07", Some(u as SysUid), format!("system {u} is gone but its system state was never dropped"));
                }
                if s.lost_by.len() >= 2 && s.arc.is_some() { self.rep.classes.hit("C07:lost_triggers_by_two_causes"); }
            }
            // C08: nothing is left to react to
            for c in 0..2
            {
                if self.tracked[c] && !self.pending_removals[c].is_empty()
                {
                    self.viol("C08", format!("{} removals of component {c} were never polled by the end of the frame", self.pending_removals[c].len()));
                    self.pending_removals[c].clear();
                }
            }
            let dead = std::mem::take(&mut self.dead_unpolled);
            for e in dead
            {
                if self.regs.iter().any(|r| r.in_table && r.in_flight && r.key == Key::Despawn(e))
                {
                    self.viol("C08", format!("the despawn of entity {e} was never reacted to by the end of the frame"));
                }
            }
        }
    }
}

fn frame_name(f: &Frame) -> String
{
    match f
    {
        Frame::Bracket{ op, .. } => format!("op {:?}", op),
        Frame::Runner{ id, .. } => format!("runner call {id}"),
        Frame::Poll{ .. } => "poll".into(),
    }
}

#[allow(dead_code)]
fn unused(_: &dyn Fn(Key) -> &'static str) {}
#[allow(dead_code)]
fn unused2() { unused(&key_item_kind); }
