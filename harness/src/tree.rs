//! The `tree` engine: generated world-mode programs, trace, reference model, per-property oracles.

use serde_json::{json, Value};

use crate::driver::*;
use crate::exec::*;
use crate::model::*;
use crate::program::*;
use crate::shrink::shrink;

pub const STEP_BUDGET: u32 = 5000;

pub struct TreeEngine
{
    pub prop: &'static str,
    pub profile: Profile,
    pub thorough_profile: Profile,
    /// class labels, any of which makes a case non-trivial for this property
    pub nontrivial: &'static [&'static str],
    pub quick_len: usize,
    pub thorough_len: usize,
}

impl TreeEngine
{
    fn eval_program(&self, program: &Program) -> CaseOutcome
    {
        let out = run_program(program, STEP_BUDGET);
        let rep = Checker::check(&out.trace);
        let mut o = CaseOutcome::default();
        o.over_budget = out.over_budget;
        if !out.over_budget
        {
            o.violations = rep.violations.iter().filter(|v| self.prop == "*" || v.prop == self.prop)
                .map(|v| if self.prop == "*" { format!("{} @{} {}", v.prop, v.pos, v.msg) } else { format!("@{} {}", v.pos, v.msg) }).collect();
            o.internal = rep.internal.clone();
        }
        let prefix = format!("{}:", self.prop);
        o.classes = rep.classes.map.iter().filter(|(k, _)| k.starts_with(&prefix)).map(|(k, n)| (k.to_string(), *n)).collect();
        o.nontrivial = self.nontrivial.iter().any(|l| rep.classes.has(l));
        o.skipped_by_rule = out.skipped.iter().map(|(k, n)| (format!("{:?}", k), *n)).collect();
        o.digest = json!({
            "events": rep.events, "runs": rep.runs, "deliveries": rep.deliveries, "max_depth": rep.max_depth,
            "ops": program.n_ops(),
            "classes": rep.classes.map.iter().filter(|(k, _)| k.starts_with(&prefix)).map(|(k, n)| (k.to_string(), *n)).collect::<Vec<_>>(),
        });
        o
    }
}

impl Engine for TreeEngine
{
    fn name(&self) -> &'static str { "tree" }

    fn max_len(&self, tier: Tier) -> usize
    {
        match tier { Tier::Quick => self.quick_len, Tier::Thorough => self.thorough_len }
    }

    fn eval_bytes(&self, bytes: &[u8], tier: Tier) -> (Value, u64, CaseOutcome)
    {
        let profile = match tier { Tier::Quick => &self.profile, Tier::Thorough => &self.thorough_profile };
        let program = decode(bytes, profile);
        let fp = program.fingerprint();
        let out = self.eval_program(&program);
        (serde_json::to_value(&program).unwrap(), fp, out)
    }

    fn eval_json(&self, case: &Value) -> Result<CaseOutcome, String>
    {
        let program: Program = serde_json::from_value(case.clone()).map_err(|e| format!("not a tree program: {e}"))?;
        Ok(self.eval_program(&program))
    }

    fn shrink_json(&self, case: &Value) -> Value
    {
        let Ok(program) = serde_json::from_value::<Program>(case.clone()) else { return case.clone() };
        let prop = self.prop;
        let mut fails = |p: &Program| -> bool {
            let out = run_program(p, STEP_BUDGET);
            if out.over_budget { return false; }
            let rep = Checker::check(&out.trace);
            if prop == "*" { !rep.violations.is_empty() } else { rep.violates(prop) }
        };
        let small = shrink(&program, &mut fails, 20_000);
        serde_json::to_value(&small).unwrap()
    }
}

/// Prints the trace and the full report of a program (debugging aid: `cvcheck trace <file>`).
pub fn dump(program: &Program)
{
    let out = run_program(program, STEP_BUDGET);
    for (i, e) in out.trace.iter().enumerate() { println!("{i:5} {:?}", e); }
    let rep = Checker::check(&out.trace);
    println!("--- violations");
    for v in rep.violations.iter() { println!("{} @{} {}", v.prop, v.pos, v.msg); }
    println!("--- internal");
    for v in rep.internal.iter() { println!("{v}"); }
    println!("--- classes {:?}", rep.classes.map);
}
