use cobweb_verif::driver::Tier;
use cobweb_verif::exec::install_quiet_panic_hook;

fn main()
{
    install_quiet_panic_hook();
    let args: Vec<String> = std::env::args().collect();
    if args.len() >= 3 && args[1] == "trace"
    {
        let text = std::fs::read_to_string(&args[2]).expect("read");
        let v: serde_json::Value = serde_json::from_str(&text).expect("json");
        let case = v.get("case").cloned().unwrap_or(v);
        let program = serde_json::from_value(case).expect("program");
        cobweb_verif::tree::dump(&program);
        return;
    }
    if args.len() < 3 { eprintln!("usage: cvcheck <PROP> <quick|thorough> [--replay <file>] | trace <file>"); std::process::exit(2); }
    let prop = args[1].clone();
    let tier = match args[2].as_str() { "thorough" => Tier::Thorough, _ => Tier::Quick };
    let replay = args.iter().position(|a| a == "--replay").and_then(|i| args.get(i + 1)).cloned();
    let seed: u64 = std::env::var("VERIF_SEED").ok().and_then(|s| s.parse().ok()).unwrap_or(1);
    let code = cobweb_verif::props::run(&prop, tier, seed, replay.as_deref());
    std::process::exit(code);
}
