#![no_main]
use libfuzzer_sys::fuzz_target;

// Coverage-guided driver of the `wr16` engine: same decoder, same oracles as the proptest driver.
// VERIF_FUZZ_PROP selects the property whose oracle counts (default: the engine's own / any).
fuzz_target!(|data: &[u8]| { cobweb_verif::fuzz::one("wr16", data); });
