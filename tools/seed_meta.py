#!/usr/bin/env python3
"""usage: seed_meta.py <seeded-id> <property> <needs> <detected-by comma list> [missed-by comma list]"""
import json, sys, os
sid, prop, needs, det = sys.argv[1:5]
missed = sys.argv[5] if len(sys.argv) > 5 else ""
d = f"/verif/seeded/{sid}"
confirm = open(f"{d}/confirm.txt").read().splitlines() if os.path.exists(f"{d}/confirm.txt") else []
meta = {
 "id": sid,
 "breaks_property": prop,
 "origin": "independent sub-agent given only the property text and a scratch worktree of /repo",
 "needs_to_manifest": needs,
 "confirmed": {
   "how": "tools/confirm_mutant.sh in the sub-agent's scratch worktree: patch applies to a clean HEAD; cargo test --workspace --offline",
   "without_change_all_tests_incl_demo": confirm[0] if len(confirm) > 0 else "",
   "with_change_existing_suite": confirm[1] if len(confirm) > 1 else "",
   "with_change_demo_only": confirm[2] if len(confirm) > 2 else "",
 },
 "checks_run": "tools/try_patch.sh seeded/%s/patch.diff <PROP>... (git -C /repo apply; ./check <PROP> quick; git -C /repo checkout -- .)" % sid,
 "detected_by_quick_checks": [x for x in det.split(",") if x],
 "not_detected_by": [x for x in missed.split(",") if x],
}
json.dump(meta, open(f"{d}/meta.json", "w"), indent=1)
print("wrote", f"{d}/meta.json")
