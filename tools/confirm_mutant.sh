#!/bin/sh
# usage: tools/confirm_mutant.sh <seeded-id> <worktree>
# Confirms a sub-agent's mutant in its scratch worktree: patch applies to a clean HEAD, the 81 existing tests pass with
# it, the demonstration fails with it and passes without it. Prints a summary; copies the artefacts to /verif/seeded/<id>.
ID="$1"; WT="$2"
cd "$WT" || exit 2
export CARGO_TARGET_DIR="$WT/target" CARGO_NET_OFFLINE=true
[ -f MUTANT/patch.diff ] || { echo "no MUTANT/patch.diff"; exit 2; }
# clean src, then apply the patch from scratch
git checkout -q -- src
git apply --check MUTANT/patch.diff || { echo "patch does not apply to clean HEAD"; exit 2; }
# without the change: everything passes
OUT0=$(cargo test --workspace --offline 2>&1 | grep -E "^test result" | grep -v " 0 passed; 0 failed" | head -1)
git apply MUTANT/patch.diff
OUT1=$(cargo test --workspace --offline -- --skip demo_mutant 2>&1 | grep -E "^test result" | grep -v " 0 passed; 0 failed" | head -1)
OUT2=$(cargo test --workspace --offline demo_mutant 2>&1 | grep -E "^test result" | grep -v " 0 passed; 0 failed" | head -1)
git checkout -q -- src
echo "without change (all tests incl. demo): $OUT0"
echo "with change, existing suite:           $OUT1"
echo "with change, demo only:                $OUT2"
mkdir -p /verif/seeded/$ID
cp MUTANT/patch.diff /verif/seeded/$ID/patch.diff
cp tests/test/demo_mutant.rs /verif/seeded/$ID/demo_mutant.rs
cp MUTANT/notes.md /verif/seeded/$ID/notes.md 2>/dev/null
printf '%s\n%s\n%s\n' "$OUT0" "$OUT1" "$OUT2" > /verif/seeded/$ID/confirm.txt
