#!/usr/bin/env python3
"""Writes /verif/MANIFEST.json from the table below (keep it in sync with harness/src/props.rs)."""
import json, subprocess

TREE = {
 "C01": ("6/C01", "dispatch oracle: for every applied trigger the multiset of reaction commands the framework applies (hook Apply events inside the op's bracket) equals the registrations of a shadow table rebuilt from applied register/revoke ops, entity deaths and polls; one generated case in eight is a world-reactor history (engine wr16: add / partial and full remove / trigger / despawn over WorldReactors and EntityWorldReactors) judged by its run-set oracle; a reaction scheduled for a live registration that is aborted, discarded or never run is reported; one resource key / explicit resource trigger in sixteen names a reactive resource type that is never inserted (dispatch depends on registrations, not on a value being present)"),
 "C02": ("6/C02", "delivery life-cycle oracle: every applied command has exactly one terminal outcome (ran once / aborted because its target is gone) before the tree's flush returns; postponement only while the target executes; replay at completion of the blocker; a system collected although it still has triggers while deliveries wait for it is reported (they can no longer run although their target should exist)"),
 "C03": ("6/C03", "reader oracle: every run's full reader sample equals the data of the delivery that started it (payload id, entity), all other readers empty, at body start and body end; convenience accessors (read / entity / get_entity / is_empty) agree with the primary ones; exclusive systems call a one-off helper system (World::syscall_once) in their body and still see their event afterwards"),
 "C04": ("6/C04", "probe oracle: probes (syscall'd plain and exclusive systems with every reader) at generated tree positions read nothing; runs read nothing beyond their own event; second take fails; reacting flags clear between trees"),
 "C05": ("6/C05", "payload life-cycle oracle: Drop-logging payloads are dropped exactly once, not before every scheduled reader's body has ended or been aborted, immediately when nobody listens, by the end of the tree; no bookkeeping entity survives; events are sent through ReactCommands (all ways of obtaining one), Commands::send_system_event and, from inside queued command closures, the World wrappers (send_system_event / broadcast / entity_event)"),
 "C06": ("6/C06", "revocation oracle: shadow-table dispatch after applied revokes (same tree and later), table sizes and per-reactor registration counts (hook snapshot) equal the shadow table at every quiescent point; a poll that owes a removal / despawn reaction to a never-revoked registration after a related revocation is reported; one generated case in eight is a world-reactor history (engine wr16) judged by its run-set oracle: triggers removed from a world reactor stop scheduling it at once, the others keep working"),
 "C07": ("6/C07", "lifetime oracle: reference-count model of every non-persistent registration call; GC events must name exactly the doomed reactors at the first collection; liveness at end of frame equals 'has a trigger left'; system state (canary) dropped exactly with the reactor; handles carried by payloads and by mid-body calls are followed; reactors registered before the plugin is installed (a persistent and a revokable sentinel) obey the same rules; one generated case in eight is a world-reactor history (engine wr16) judged by the part of its oracle this property shares (a world reactor's system is never despawned or duplicated)"),
 "C08": ("6/C08", "removal/despawn oracle: removals and despawns caused by commands, direct world access, plain Bevy systems in four slots of the frame, recursive despawn and automatic despawn (signal dropped, collected by the next garbage collection); per poll, reactions applied per (reactor, entity, component) lie between 'registered throughout' and 'registered at poll'; despawn reactions exactly the in-flight registrations; nothing pending after the end-of-frame poll; one generated case in eight is a world-reactor history (engine wr16) judged by the part of its oracle this property shares (run set of removal / despawn reactions of world reactors)"),
 "C09": ("6/C09", "structural order oracle: well-nested trace (ops of a run applied in queued order while it is innermost, every command applied inside its op's bracket or a poll, postponed commands replayed inside the completion of their blocker, never dropped instead of postponed; polled despawn reactions run within the tree whose poll took them; when the outermost runner call returns nothing is left unpolled; manual runs applied directly from inside an exclusive body; trees of 140-260, 1100 and 2100 queued runs (all postponed when the target is the sender); a delivery to a live system that neither ran nor was postponed by the end of its tree is reported)"),
 "C11": ("6/C11", "quiescence invariant from the hook snapshot after every tree (counter, postponed buffer, four prepared lists, four reacting flags, callbacks present) and no surviving event data entity, over sequences of trees with aborts/postponements"),
 "C12": ("6/C12", "order oracle: deliveries from one sender to one target start, and their data is consumed, in the order sent (per payload id); a removal / despawn caused earlier by the same run is reacted to before a later delivery of that run to the same target starts (also when the poll in between owed the reaction and did not deliver it); the reactions one system gets for the removals of one component are queued in the order the removals happened; a run that misses its own data while the sender has other deliveries to the same target is reported; a despawn performed by a collection belongs to the run that dropped the last signal (the collection at a runner's entry comes before its poll); a delivery never processed while its siblings were is reported"),
 "C13": ("6/C13", "state oracle: the k-th run of every registration sees Local == captured counter == k; its Bevy change-detection baseline (ReactRes::is_changed sampled by every generated system, predicted from the applied resource mutations) is exactly its previous run (exclusive systems: World change ticks since their previous flush); state dropped only with the system; a system that is collected or gone while it still has registered triggers is reported (state lost while it should live); one generated case in eight is a world-reactor history (engine wr16) judged by the part of its oracle this property shares (Local continuity of world reactors, their system never gone); the parameter state of exclusive systems is constructed at most once per system (counted FromWorld)"),
 "C15": ("6/C15", "one-off oracle: dispatch/lifetime/run-count oracles specialised to reactors registered with `once` (at most one run, gone and unregistered afterwards, empty bundle dropped)"),
 "C18": ("6/C18", "fault-injection oracle (plus one generated case in eight from the world-reactor engine wr16, incl. EntityReactor::add on an entity despawned earlier in the same batch, and one in eight from the syscall engine sys17, panics only: spawned systems despawned before or during a call): ops naming despawned systems/entities; no panic, no run of a dead system, payload released, every other oracle still holds in that tree; system events aimed at entities that carry no system or at Entity::PLACEHOLDER; automatic despawn requests naming dead entities"),
}

def check(pid, engine, design, text, technique, note):
    return {
        "property_id": pid,
        "quick_cmd": f"./check {pid} quick",
        "thorough_cmd": f"./check {pid} thorough",
        "evidence_file": f"/verif/evidence/{pid}.json",
        "replay_cmd_template": f"./check {pid} --replay {{path}}",
        "engine": engine,
        "level_claimed": {"category": "exploration", "text": text, "design_ref": f"DESIGN.md section {design}"},
        "level_note": note,
        "technique": technique,
    }

NOTE = ("exploration only: absence of a violation is evidence over the generated, counted space (<= 8 systems, <= 5 entities, 2 component / event / resource types; in a third of the programs a sibling App works on the same thread between the top-level ops, a quarter run under a tracing subscriber that enables every level); "
        "trusts the `verif` hook events, bevy 0.15 command-queue semantics and the generator soundness rules of DESIGN.md section 4")

checks = []
for pid, (design, text) in sorted(TREE.items()):
    checks.append(check(pid, "tree", design, text,
        "property-based testing: proptest-generated programs (byte decoder), trace + reference model oracle, structural shrinking, JSON replay", NOTE))

checks.append(check("C14", "acc14", "6/C14",
    "accessor oracle: per system run of 1..n accessor calls (React, Reactive, ReactiveMut, ReactRes, ReactResMut, World/ReactCommands triggers, ReactCommands::insert, despawns) a value/liveness model predicts the multiset of reactions seen by type-wide and entity-scoped probe reactors, the stored values and every return value; read-only world-level resource accessors agree and trigger nothing; equality is the type's PartialEq (values carry a tag nibble that equality ignores); registering and revoking unrelated reactors (component, resource, entity-scoped single keys and tuples, and broadcast / any_entity_event reactors keyed by the same types) in between changes nothing, also when the token is revoked a second time; in half of the cases the type-wide probes are App-level reactors added before ReactPlugin; React::get_mut on a zero-sized reactive component",
    "property-based testing: proptest-generated call histories, reference model oracle, shrinking, JSON replay",
    "exploration only; probe reactors are the observation device; a mutation trigger whose entity died before its application still runs the type-wide reactors (exactly one trigger per call)"))
checks.append(check("C17", "sys17", "6/C17",
    "syscall oracle: histories of calls over syscall / named_syscall / register_named_system + named_syscall_direct / spawn_system + spawned_syscall / Commands::syscall / Commands::spawned_syscall / syscall_once (World, Commands, EntityCommands) / EntityCommands::syscall / spawn_rc_system (+ signal drop and collection) / Commands::insert_system / IdMappedSystems::revoke with nesting and command-issued calls; a key -> count model predicts every return value, the order of every queued-command effect visible on return, and every error; validation variants run their validation exactly when the key's state is created; a spawned system despawned during its own call still returns its output; each key's change-detection baseline is its own; cached systems see entities in archetypes created between calls (Query); callbacks handed to the _from entry points may have been initialised 0-2 times by their owner; the ordinary system also writes through a custom Deferred<SystemBuffer>; named_syscall_direct on a key that is running right now returns an error, runs nothing and leaves the key's state alone",
    "property-based testing: proptest-generated call histories, reference model oracle, shrinking, JSON replay",
    "exploration only; a re-entrant syscall / named_syscall on a running key is generated with its own count left open (documented: only the outer-most invocation's state persists); named_syscall_direct on a running key is generated only while no re-entrant named_syscall ran on that key earlier in the history"))
checks.append(check("C10", "rc10", "6/C10",
    "reference-count oracle: histories of prepare / clone / drop / garbage-collect / app.update / manual-despawn / spawn-child / reparent operations plus worker-thread drops, injected faults (a clone dropped by the unwinding of a caught panic; worker threads dying while holding clones) and clones held by components of other entities (dropped in the middle of a collection pass); after every operation the set of live entities equals the count model (collected exactly when the last clone is gone, with descendants; never earlier; collections idempotent); a collection pass interrupted by a panicking removal hook loses nothing that waited behind the fault; two clones of 40-160 entities dropped by two barrier-released threads; half of the cases run under the whole ReactPlugin with commands / system events aimed at counted entities (the runner must leave them alone) and despawn reactors registered on them; counted entities made by spawn_rc_system_command(_from) / spawn_rc_system(_from), whose spawned system can be called and can strip its own entity during the call; a second world on the same thread that collects in between, or from a component's Drop in the middle of a pass of the first world; a burst of 2100 entities before one collection",
    "property-based testing: proptest-generated operation histories (incl. OS-thread drop schedules), reference-count model oracle, shrinking, JSON replay",
    "exploration only; thread interleavings are sampled by the OS scheduler, not enumerated (the checked invariants are schedule independent)"))
checks.append(check("C16", "wr16", "6/C16",
    "world-reactor oracle: histories of add / remove (partial, full, spanning entities) / run / trigger / despawn over two WorldReactors with dynamic bundles, one with starting triggers and four EntityWorldReactors (one of them an exclusive system that fetches EntityLocal and the readers twice per run); per window between settles the multiset of runs (reactor, readings, local entity + tag) equals the key-table model; add / remove / run return values (false only for add on a despawned entity); EntityLocal::get / entity agree with get_mut; per-entity run counters in the local data and per-reactor Locals are continuous; local data exists exactly while the entity lives and keeps a trigger; number of system commands constant; key bundles may contain event keys of the resource's type (a second registry keyed by the same TypeId); EntityReactor::add on an entity despawned earlier in the same batch; in half of the histories the type-wide removal reactor that started removal tracking has been revoked again (entity-scoped removal triggers must go on working)",
    "property-based testing: proptest-generated operation histories, reference model oracle, shrinking, JSON replay",
    "exploration only; uses hook helpers verif_has_entity_world_local / verif_system_commands as read-only observers"))
checks.sort(key=lambda c: c["property_id"])

ALL = [f"C{i:02d}" for i in range(1, 19)]
claimed = {c["property_id"] for c in checks}
PENDING = {
 "C10": "engine rc10 (prepare/clone/drop/gc histories vs reference count) not built yet",
 "C14": "engine acc14 (accessor matrix) not built yet",
 "C16": "engine wr16 (world reactor histories) not built yet",
 "C17": "engine sys17 (syscall family histories) not built yet",
}
not_applicable = [{"property_id": p, "reason": PENDING.get(p, "not built yet")} for p in ALL if p not in claimed]

hooks = subprocess.run(["git", "-C", "/repo", "log", "--format=%H %s"], capture_output=True, text=True).stdout.splitlines()
hook_commits = [l.split()[0] for l in hooks if "verif hooks" in l]

manifest = {
 "version": 1,
 "setup_cmd": "cd /verif/harness && CARGO_NET_OFFLINE=true cargo build --release --offline && cd fuzz && CARGO_NET_OFFLINE=true cargo +nightly fuzz build -O -s none",
 "hooks": {
   "guard": "cargo feature `verif` of bevy_cobweb",
   "enable": "the harness crate depends on bevy_cobweb = { path = \"/repo\", features = [\"verif\"] }; every check runs `cargo build --release --offline` first",
   "baseline_off_cmd": "cd /repo && cargo test --workspace --no-fail-fast --offline",
   "source_commits": list(reversed(hook_commits)),
   "add_only": True,
 },
 "engines": [
   {"name": "acc14", "path": "/verif/harness/src/acc14.rs", "serves_properties": ["C14"], "kind_free_text": "accessor call histories vs value/liveness model, probe reactors"},
   {"name": "sys17", "path": "/verif/harness/src/sys17.rs", "serves_properties": ["C17"], "kind_free_text": "syscall-family call histories vs key->count model"},
   {"name": "rc10", "path": "/verif/harness/src/rc10.rs", "serves_properties": ["C10"], "kind_free_text": "auto-despawn signal histories (with worker threads) vs reference-count model"},
   {"name": "wr16", "path": "/verif/harness/src/wr16.rs", "serves_properties": ["C16"], "kind_free_text": "world reactor / entity world reactor histories vs key-table model; also the side engine of the C01 and C06 checks (one case in eight, run-set oracle only)"},
   {"name": "tree", "path": "/verif/harness/src/{program,exec,model,tree}.rs", "serves_properties": sorted(TREE.keys()),
    "kind_free_text": "generated world-mode programs over a small closed universe, executed against the real crate; one totally ordered trace of harness markers + hook events; reference model rebuilt from applied ops/facts; per-property oracles"},
 ],
 "checks": checks,
 "not_applicable": not_applicable,
 "notes": "Known findings / repaired defects: /verif/known_findings.json. Seeded mutants: /verif/seeded/. All checks are property-based tests (proptest) or libFuzzer campaigns over the same decoder and oracles.",
}
json.dump(manifest, open("/verif/MANIFEST.json", "w"), indent=1)
print("checks:", len(checks), "not_applicable:", [n["property_id"] for n in not_applicable])
