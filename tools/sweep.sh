#!/bin/sh
# usage: tools/sweep.sh <tier> <seed>...   -- runs every check with every seed; prints only non-zero exits
cd "$(dirname "$0")/.." || exit 2
TIER="$1"; shift
for S in "$@"; do
  for P in C01 C02 C03 C04 C05 C06 C07 C08 C09 C10 C11 C12 C13 C14 C15 C16 C17 C18; do
    OUT=$(VERIF_SEED=$S ./check $P $TIER 2>/dev/null); RC=$?
    if [ $RC -ne 0 ]; then echo "seed=$S $P rc=$RC"; echo "$OUT" | tail -6; else echo "seed=$S $P ok $(echo "$OUT" | tail -1)"; fi
  done
done
