#!/bin/sh
# Re-runs every seeded mutant (sub-agent) and own mutant against the quick check of the property in its name.
for D in /verif/seeded/*/; do
    ID=$(basename $D); PROP=$(echo $ID | cut -d_ -f1)
    echo "seeded/$ID: $(/verif/tools/try_patch.sh $D/patch.diff $PROP 2>&1 | tr '\n' ' ' | cut -c1-60)"
done
for P in /verif/mutants/own_*.patch; do
    NAME=$(basename $P .patch); PROP=$(echo $NAME | sed 's/^own_//' | cut -d_ -f1)
    echo "mutants/$NAME: $(/verif/tools/try_patch.sh $P $PROP 2>&1 | tr '\n' ' ' | cut -c1-60)"
done
for P in fix_R1R2:C12 fix_R2:C03 fix_R2:C16 fix_I1:C14 fix_I1:C01; do
    N=${P%%:*}; PROP=${P##*:}
    echo "revert $N: $(/verif/tools/try_patch.sh /verif/mutants/$N.patch -R $PROP 2>&1 | tr '\n' ' ' | cut -c1-60)"
done
