#!/bin/sh
# usage: tools/tp.sh <seeded-id | patch file> <PROP>...   -- like try_patch.sh but in a scratch worktree (never touches /repo)
X="$1"; shift
if [ -f "$X" ]; then P="$X"; else P="/verif/seeded/$X/patch.diff"; fi
/verif/tools/scratch_check.sh tp "$P" "$@" | tr '\n' ' '; echo " <- $X"
