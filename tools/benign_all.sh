#!/bin/sh
# usage: tools/benign_all.sh [workspace-name] [group glob]  -- every behaviour-preserving patch under /verif/benign against EVERY quick
# check, in a scratch worktree (never /repo). Prints only the lines that are not `exit=0`: any such line is a false alarm.
WS="${1:-benign}"
for P in /verif/benign/${2:-*}/patch*.diff; do
    echo "== $P"
    /verif/tools/scratch_check.sh "$WS" "$P" ALL | grep -v "exit=0"
done
