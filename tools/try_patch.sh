#!/bin/sh
# usage: tools/try_patch.sh <patch> [-R] <PROP>...   -- applies a patch to /repo, runs the quick checks, reverts.
PATCH="$(realpath "$1")"; shift
REV=""
if [ "$1" = "-R" ]; then REV="-R"; shift; fi
if ! git -C /repo diff --quiet; then echo "/repo has uncommitted changes"; exit 2; fi
git -C /repo apply $REV "$PATCH" || { echo "patch does not apply"; exit 2; }
# evidence files must describe runs on the unchanged tree: keep them aside while the patch is applied
EVBAK=$(mktemp -d); cp -a /verif/evidence/. "$EVBAK"/
for P in "$@"; do
    OUT=$(/verif/check "$P" "${TIER:-quick}" 2>/dev/null)
    RC=$?
    echo "$P exit=$RC $(echo "$OUT" | grep -E 'VIOLATION|BUILD FAILED|INCONCLUSIVE' | head -2 | tr '\n' ' ')"
    if [ -n "$VERBOSE" ]; then echo "$OUT" | tail -8; fi
done
git -C /repo checkout -- .
cp -a "$EVBAK"/. /verif/evidence/; rm -rf "$EVBAK"
# drop the replays written while the patch was applied
git -C /verif status --short replays | awk '$1=="??"{print $2}' | xargs -r rm -rf
