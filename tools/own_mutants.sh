#!/bin/sh
# usage: tools/own_mutants.sh [pattern]  -- for every /verif/mutants/own_*.patch: does it compile / pass the 81 repo tests
# (scratch worktree), and does the quick check of the property in its name (and the extra ones listed) detect it?
PAT="${1:-own_}"
WT=/tmp/own_wt
git -C /repo worktree remove --force $WT 2>/dev/null
git -C /repo worktree add -q --detach $WT HEAD || exit 2
export CARGO_NET_OFFLINE=true
(cd $WT && CARGO_TARGET_DIR=$WT/target cargo test --workspace --offline --no-run >/dev/null 2>&1)
for P in /verif/mutants/*${PAT}*.patch; do
    NAME=$(basename $P .patch)
    PROP=$(echo $NAME | sed 's/^own_//' | cut -d_ -f1)
    (cd $WT && git checkout -q -- src && git apply $P 2>/dev/null) || { echo "$NAME: patch does not apply"; continue; }
    T=$(cd $WT && CARGO_TARGET_DIR=$WT/target cargo test --workspace --offline 2>&1 | grep -E "^test result|error(\[|:)" | grep -v " 0 passed; 0 failed" | head -1)
    (cd $WT && git checkout -q -- src)
    R=$(/verif/tools/try_patch.sh $P $PROP 2>&1 | tr '\n' ' ')
    echo "$NAME | repo tests: $T | $R"
done
git -C /repo worktree remove --force $WT
