#!/bin/sh
# usage: tools/scratch_check.sh <workspace-name> <patch> <PROP>...|ALL
# Applies a patch to a scratch worktree of /repo (never /repo itself) and runs the given quick checks from a scratch
# copy of /verif whose harness points at that worktree. Prints one line per check. VERIF_SEED is passed through.
# VERIF_SRC=<dir> takes the checks from a frozen snapshot of /verif instead (long screens while /verif is being edited).
NAME="$1"; PATCH="$(realpath "$2")"; shift 2
W=/tmp/scratch_$NAME
mkdir -p $W
if [ ! -d $W/repo ]; then git -C /repo worktree add -q --detach $W/repo HEAD || exit 2; fi
(cd $W/repo && git checkout -q -- . && git checkout -q --detach "$(git -C /repo rev-parse HEAD)") || exit 2
SRC="${VERIF_SRC:-/verif}"
rsync -a --delete --exclude target --exclude work --exclude .git --exclude "replays/*/found" $SRC/ $W/verif/ 2>/dev/null
rm -rf $W/verif/replays/*/found
sed -i "s#path = \"/repo\"#path = \"$W/repo\"#" $W/verif/harness/Cargo.toml
(cd $W/repo && git apply "$PATCH") || { echo "patch does not apply"; exit 2; }
PROPS="$*"
[ "$PROPS" = "ALL" ] && PROPS="C01 C02 C03 C04 C05 C06 C07 C08 C09 C10 C11 C12 C13 C14 C15 C16 C17 C18"
for P in $PROPS; do
    OUT=$($W/verif/check "$P" quick 2>/dev/null); RC=$?
    echo "$P exit=$RC $(echo "$OUT" | grep -E 'VIOLATION|BUILD FAILED|INCONCLUSIVE' | head -1 | cut -c1-160)"
    if [ $RC -ne 0 ] && [ -n "$VERBOSE" ]; then echo "$OUT" | tail -8; fi
done
(cd $W/repo && git checkout -q -- .)
