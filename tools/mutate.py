#!/usr/bin/env python3
"""Automatic mutation screening of /repo against the checks in /verif (a tool, not a registered check).

  tools/mutate.py gen                      -> /tmp/mut/mutants.json  (enumerates small source mutants of /repo/src)
  tools/mutate.py run <shard> <nshards>    -> /tmp/mut/results_<shard>.jsonl  (one line per mutant)
  tools/mutate.py report                   -> summary of all result files

Per mutant: applied to a scratch copy of /repo (never /repo itself); `cargo test` there; if it still compiles and the 81
tests pass, every quick check is run from a scratch copy of /verif whose harness points at the scratch repo
(first with a reduced budget, then - if nothing fired - with the registered budget).  Survivors are printed by `report`
and have to be triaged by hand: equivalent change / behaviour the properties leave open / real gap in a check.
"""
import json, os, re, subprocess, sys, shutil, time, hashlib

ROOT = '/tmp/mut'
PROPS = ['C%02d' % i for i in range(1, 19)]

def code_lines(path):
    """yield (lineno, line) of mutable code lines: no comments, attributes, verif-guarded lines"""
    lines = open(path).read().split('\n')
    skip_next = False
    depth_skip = None
    in_block = False
    for i, l in enumerate(lines):
        s = l.strip()
        if in_block:
            if '*/' in s: in_block = False
            continue
        if s.startswith('/*'):
            if '*/' not in s: in_block = True
            continue
        if 'cfg(feature = "verif")' in s or "cfg(feature = \"verif\")" in s:
            skip_next = True
            continue
        if skip_next:
            # skip the guarded item: a single line, or a block up to its closing brace at the same indent
            if s.endswith('{') or (i + 1 < len(lines) and lines[i + 1].strip() == '{'):
                depth_skip = len(l) - len(l.lstrip())
            skip_next = False
            continue
        if depth_skip is not None:
            if s.startswith('}') and (len(l) - len(l.lstrip())) == depth_skip:
                depth_skip = None
            continue
        if not s or s.startswith('//') or s.startswith('#[') or s.startswith('#!') or s.startswith('use ') or s.startswith('pub use '):
            continue
        if 'verif::' in s:
            continue
        if s.startswith('tracing::') or s.startswith('debug_assert') or s.startswith('warn_once') or 'tracing::' in s:
            continue
        yield i, l

def strip_comment(l):
    k = l.find('//')
    return l if k < 0 else l[:k]

SUBS = [
    (r' == ', ' != '), (r' != ', ' == '),
    (r' && ', ' || '), (r' \|\| ', ' && '),
    (r' < ', ' <= '), (r' > ', ' >= '), (r' <= ', ' < '), (r' >= ', ' > '),
    (r'\+= 1', '+= 2'), (r'\+= 1', '+= 0'), (r'-= 1', '-= 0'), (r' \+ 1\b', ' + 0'), (r' - 1\b', ' - 0'),
    (r'\bposition\(', 'rposition('),
    (r'\.swap_remove\(', '.remove('), (r'(?<!swap_)\bremove\((?=[a-z_]+\))', 'swap_remove('),
    (r'\.first\(\)', '.last()'), (r'\.last\(\)', '.first()'),
    (r'\.pop_front\(\)', '.pop_back()'), (r'\.push_back\(', '.push_front('),
    (r'\bcontinue;', 'break;'), (r'\bbreak;', 'continue;'),
    (r'\btrue\b', 'false'), (r'\bfalse\b', 'true'),
    (r'\bis_some\(\)', 'is_none()'), (r'\bis_none\(\)', 'is_some()'),
    (r'\bis_ok\(\)', 'is_err()'), (r'\bis_err\(\)', 'is_ok()'),
    (r'\bis_empty\(\)', 'len() == 1'),
    (r'if !', 'if '), (r'if (?!let|!)', 'if !'),
    (r'\bdespawn_recursive\(\)', 'despawn()'),
    (r'\.rev\(\)', ''),
    (r'\.drain\(\.\.\)', '.drain(1..)'),
    (r'\.iter\(\)\.rev\(\)', '.iter()'),
    (r'\bwhile let\b', 'if let'),
    (r'\.extend\(', '.clear(); //'),
    (r'\.saturating_sub\(1\)', '.saturating_sub(0)'),
    (r'\.get_or_insert_with\(', '.insert('),
    (r'\btry_insert\(', 'insert('),
]

CALL_STMT = re.compile(r'^\s*[a-zA-Z_][\w\.:<>]*(\(.*\))?(\.[a-zA-Z_]\w*(::<[^>]*>)?\(.*\))*;\s*$')

def enumerate_mutants():
    out = []
    for dp, dn, fn in os.walk('/repo/src'):
        for f in sorted(fn):
            if not f.endswith('.rs') or f == 'verif.rs':
                continue
            path = os.path.join(dp, f)
            rel = os.path.relpath(path, '/repo')
            if rel in ('src/result.rs', 'src/ecs/err.rs', 'src/react/err.rs'):
                continue
            for i, l in code_lines(path):
                code = strip_comment(l)
                for pat, rep in SUBS:
                    for m in re.finditer(pat, code):
                        new = code[:m.start()] + re.sub(pat, rep, code[m.start():m.end()]) + code[m.end():]
                        if new != code:
                            out.append(dict(file=rel, line=i, op='sub:%s->%s' % (pat, rep), old=l, new=new))
                # statement deletion: a call statement on its own line
                s = code.strip()
                if CALL_STMT.match(code) and not s.startswith('let ') and not s.startswith('return') and '=' not in s.split('(')[0]:
                    out.append(dict(file=rel, line=i, op='delete-stmt', old=l, new=re.sub(r'\S.*', '();', code, count=1)))
                # early return deletion: `else { return; }` cannot be deleted syntactically; swap `return;` for nothing on own line
                if s in ('return;', 'continue;', 'break;'):
                    out.append(dict(file=rel, line=i, op='delete-jump', old=l, new=''))
    # dedupe
    seen, res = set(), []
    for m in out:
        k = (m['file'], m['line'], m['new'])
        if k in seen: continue
        seen.add(k); res.append(m)
    for n, m in enumerate(res):
        m['id'] = n
    return res

def sh(cmd, cwd=None, timeout=600, env=None):
    e = dict(os.environ); e['CARGO_NET_OFFLINE'] = 'true'
    if env: e.update(env)
    try:
        p = subprocess.run(cmd, shell=True, cwd=cwd, timeout=timeout, env=e, stdout=subprocess.PIPE, stderr=subprocess.STDOUT, text=True)
        return p.returncode, p.stdout
    except subprocess.TimeoutExpired as ex:
        subprocess.run("pkill -f '%s' || true" % cwd, shell=True)
        return 124, (ex.stdout or '') if isinstance(ex.stdout, str) else ''

def setup_shard(k):
    w = '%s/w%d' % (ROOT, k)
    if not os.path.isdir(w + '/repo'):
        os.makedirs(w, exist_ok=True)
        sh('git -C /repo worktree add --detach %s/repo HEAD' % w)
    sh('git checkout -q -- . && git checkout -q --detach %s' % subprocess.check_output('git -C /repo rev-parse HEAD', shell=True, text=True).strip(), cwd=w + '/repo')
    # scratch copy of /verif (committed state + working tree, without build output)
    sh('rsync -a --delete --exclude target --exclude work --exclude .git --exclude evidence --exclude "replays/*/found" /verif/ %s/verif/' % w)
    os.makedirs(w + '/verif/evidence', exist_ok=True)
    sh("sed -i 's#path = \"/repo\"#path = \"%s/repo\"#' %s/verif/harness/Cargo.toml" % (w, w))
    return w

def test_mutant(w, m, reduced, full):
    path = '%s/repo/%s' % (w, m['file'])
    lines = open(path).read().split('\n')
    assert lines[m['line']] == m['old'], 'source drifted'
    lines[m['line']] = m['new']
    open(path, 'w').write('\n'.join(lines))
    res = dict(id=m['id'], file=m['file'], line=m['line'] + 1, op=m['op'], old=m['old'].strip(), new=m['new'].strip())
    try:
        t0 = time.time()
        rc, out = sh('cargo test --workspace --offline 2>&1 | tail -40', cwd=w + '/repo', timeout=400, env={'CARGO_TARGET_DIR': w + '/repo/target'})
        res['t_tests'] = round(time.time() - t0, 1)
        if rc == 124:
            res['status'] = 'tests-timeout'; return res
        if 'error' in out and 'could not compile' in out:
            res['status'] = 'nocompile'; return res
        mres = re.findall(r'test result: (\w+)\. (\d+) passed; (\d+) failed', out)
        if not mres or any(x[0] != 'ok' for x in mres) or int(mres[0][1]) < 81:
            res['status'] = 'killed-by-tests'; return res
        # survived the repository's tests: run the checks
        caught, incon = [], []
        t0 = time.time()
        for stage, cases in (('reduced', reduced), ('full', full)):
            if cases is None: continue
            for p in PROPS:
                env = {'VERIF_SEED': '1'}
                if cases: env['VERIF_CASES'] = str(cases if p not in ('C10',) else min(cases, 8000))
                rc, out = sh('./check %s quick' % p, cwd=w + '/verif', timeout=900, env=env)
                if rc == 1 and 'VIOLATION' in out:
                    caught.append(p)
                elif rc != 0:
                    incon.append('%s:%d:%s' % (p, rc, out.strip().split('\n')[-1][:120]))
            res['stage'] = stage
            if caught: break
        res['t_checks'] = round(time.time() - t0, 1)
        res['caught_by'] = caught
        res['inconclusive'] = incon
        res['status'] = 'caught' if caught else ('inconclusive' if incon else 'SURVIVED')
        sh('rm -rf %s/verif/replays/*/found' % w)
        return res
    finally:
        lines[m['line']] = m['old']
        open(path, 'w').write('\n'.join(lines))

def main():
    cmd = sys.argv[1]
    if cmd == 'gen':
        os.makedirs(ROOT, exist_ok=True)
        ms = enumerate_mutants()
        json.dump(ms, open(ROOT + '/mutants.json', 'w'), indent=0)
        byop = {}
        for m in ms: byop[m['op']] = byop.get(m['op'], 0) + 1
        print(len(ms), 'mutants'); [print(' ', k, v) for k, v in sorted(byop.items(), key=lambda x: -x[1])]
    elif cmd == 'run':
        k, n = int(sys.argv[2]), int(sys.argv[3])
        reduced = int(os.environ.get('MUT_REDUCED', '40000'))
        full = 0 if os.environ.get('MUT_FULL', '1') == '1' else None
        ms = json.load(open(ROOT + '/mutants.json'))
        # deterministic shuffle so shards see a mix of files
        ms.sort(key=lambda m: hashlib.md5(str(m['id']).encode()).hexdigest())
        mine = [m for i, m in enumerate(ms) if i % n == k]
        lim = int(os.environ.get('MUT_LIMIT', '0'))
        if lim: mine = mine[:lim]
        w = setup_shard(k)
        done = set()
        rp = '%s/results_%d.jsonl' % (ROOT, k)
        if os.path.exists(rp):
            for l in open(rp):
                r = json.loads(l); done.add((r['file'], r['line'] - 1, r['new']))
        with open(rp, 'a') as f:
            for m in mine:
                if (m['file'], m['line'], m['new'].strip()) in done: continue
                r = test_mutant(w, m, reduced, full)
                f.write(json.dumps(r) + '\n'); f.flush()
    elif cmd == 'report':
        rs = []
        for fn in sorted(os.listdir(ROOT)):
            if fn.startswith('results_'):
                rs += [json.loads(l) for l in open(ROOT + '/' + fn)]
        seen = {}
        for r in rs: seen[(r['file'], r['line'], r['new'])] = r
        rs = list(seen.values())
        by = {}
        for r in rs: by.setdefault(r['status'], []).append(r)
        for k, v in by.items(): print(k, len(v))
        for st in ('SURVIVED', 'inconclusive'):
            for r in sorted(by.get(st, []), key=lambda r: (r['file'], r['line'])):
                print('%s %s:%d  - %s  + %s   %s' % (st, r['file'], r['line'], r['old'][:90], r['new'][:90], r.get('inconclusive', '') or ''))
        c = {}
        for r in by.get('caught', []):
            for p in r['caught_by']: c[p] = c.get(p, 0) + 1
        print('caught-by histogram', sorted(c.items()))

if __name__ == '__main__':
    main()
