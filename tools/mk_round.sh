#!/bin/sh
# usage: tools/mk_round.sh <round-tag> <PROP>...  -- scratch worktrees /tmp/wt/<tag>_<PROP> with PROPERTY.txt and TAKEN.txt
TAG="$1"; shift
for P in "$@"; do
  WT=/tmp/wt/${TAG}_$P
  git -C /repo worktree add --detach "$WT" HEAD >/dev/null 2>&1 || { echo "worktree $WT failed"; continue; }
  python3 - "$P" "$WT" <<'PY'
import json,sys,glob,os
p,wt=sys.argv[1],sys.argv[2]
for l in open('/verif/properties.jsonl'):
    d=json.loads(l)
    if d['id']==p:
        open(wt+'/PROPERTY.txt','w').write(d['title']+'\n\n'+d['statement']+'\n')
taken=[]
for m in sorted(glob.glob('/verif/seeded/%s_*/meta.json'%p)):
    j=json.load(open(m)); taken.append('- '+j['id'].split('_',1)[1].replace('_',' ')+': '+j['needs_to_manifest'])
for m in sorted(glob.glob('/verif/mutants/own_%s_*.patch'%p)):
    taken.append('- '+os.path.basename(m)[8:-6].replace('_',' '))
open(wt+'/TAKEN.txt','w').write('\n'.join(taken)+'\n')
PY
  cp -a /tmp/wt/base/target "$WT/target"
  echo "$WT"
done
