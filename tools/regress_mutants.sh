#!/bin/sh
# Re-runs every seeded mutant (sub-agent), own mutant and reverted fix against the quick check of the property in its
# name, in a scratch worktree of /repo + scratch copy of /verif (so /repo and /verif/evidence are never touched).
# usage: tools/regress_mutants.sh [pattern] > mutants/RESULTS.txt
PAT="${1:-}"
W=/tmp/mreg
mkdir -p $W
git -C /repo worktree remove --force $W/repo 2>/dev/null
git -C /repo worktree add -q --detach $W/repo HEAD || exit 2
rsync -a --delete --exclude target --exclude work --exclude .git --exclude "replays/*/found" /verif/ $W/verif/
sed -i "s#path = \"/repo\"#path = \"$W/repo\"#" $W/verif/harness/Cargo.toml
run() { # label patchfile reverse props...
    LABEL="$1"; PATCH="$2"; REV="$3"; shift 3
    (cd $W/repo && git checkout -q -- . && git apply $REV "$PATCH") || { echo "$LABEL: patch does not apply"; return; }
    for P in "$@"; do
        OUT=$($W/verif/check "$P" quick 2>/dev/null); RC=$?
        echo "$LABEL: $P exit=$RC $(echo "$OUT" | grep -E 'VIOLATION|BUILD FAILED|INCONCLUSIVE' | head -1 | sed 's#replay=.*/replays#replay=replays#' | cut -c1-70)"
    done
    (cd $W/repo && git checkout -q -- .)
    rm -rf $W/verif/replays/*/found
}
for D in /verif/seeded/*${PAT}*/; do
    ID=$(basename $D); PROP=$(echo $ID | cut -d_ -f1)
    run "seeded/$ID" $D/patch.diff "" $PROP
done
for P in /verif/mutants/own_*${PAT}*.patch; do
    [ -f "$P" ] || continue
    NAME=$(basename $P .patch); PROP=$(echo $NAME | sed 's/^own_//' | cut -d_ -f1)
    run "mutants/$NAME" $P "" $PROP
done
if [ -z "$PAT" ]; then
    run "revert fix_R1R2" /verif/mutants/fix_R1R2.patch -R C12
    run "revert fix_R2" /verif/mutants/fix_R2.patch -R C03 C16
    run "revert fix_I1" /verif/mutants/fix_I1.patch -R C14 C01
    # sanity: the unchanged tree is silent in the scratch copy too
    (cd $W/repo && git checkout -q -- .)
    for P in C01 C09 C13 C16; do OUT=$($W/verif/check $P quick 2>/dev/null); echo "unchanged tree: $P exit=$? $(echo "$OUT" | tail -1)"; done
fi
git -C /repo worktree remove --force $W/repo
