#!/usr/bin/env python3
"""Collects the outputs of tools/benign_all.sh (one file per patch group) into benign/RESULTS.txt.
usage: benign_results.py <out-file>..."""
import sys, re
lines = []
alarms = 0
patches = 0
for f in sys.argv[1:]:
    cur = None
    for l in open(f, errors="replace"):
        l = l.rstrip()
        if l.startswith("== "):
            cur = l[3:].replace("/verif/", ""); patches += 1; lines.append(f"{cur}: all 18 quick checks exit=0")
        elif l.strip() and cur:
            if lines and lines[-1].startswith(cur + ": all"): lines.pop()
            lines.append(f"{cur}: {l}"); alarms += 1
hdr = f"""# tools/benign_all.sh: every behaviour-preserving patch under /verif/benign against EVERY quick check (scratch worktree of /repo,
# scratch copy of /verif as of the final harness). A line that is not "all 18 quick checks exit=0" would be a false alarm.
# patches screened: {patches}; lines that are not exit=0: {alarms}
"""
open("/verif/benign/RESULTS.txt", "w").write(hdr + "\n".join(lines) + "\n")
print(patches, alarms)
